#!/venv/bin/python
"""Entry point of every check registered in MANIFEST.json.

    check.py <PROPERTY> [--tier quick|thorough] [--runs N] [--budget S]
    check.py --replay <file>
    check.py selftest [determinism|all]

Exit 0: property held on everything explored (or only known findings); exit 1 with a line
"VIOLATION property=<id> replay=<path>"; exit 2: harness ERROR (never a verdict).
"""
import argparse
import json
import os
import sys

sys.path.insert(0, os.path.dirname(os.path.abspath(__file__)))
from sim import core  # noqa: E402

core.ensure_env()

DEFAULT_SEED = 20260926

RUN_LEVEL = ("C01", "C02", "C03", "C05", "C06", "C07", "C11")


def main():
    ap = argparse.ArgumentParser()
    ap.add_argument("prop", nargs="?")
    ap.add_argument("sub", nargs="?")
    ap.add_argument("--tier", default=os.environ.get("VERIF_TIER") or "quick", choices=["quick", "thorough"])
    ap.add_argument("--runs", type=int, default=None)
    ap.add_argument("--budget", type=float, default=None)
    ap.add_argument("--replay", default=None)
    ap.add_argument("--algos", default=None, help="comma separated: restrict a run-level check (debugging aid)")
    ap.add_argument("--envs", default=None)
    args = ap.parse_args()
    # The checks verify /repo's current working tree.  VOPY_VERIF_REPO points them at a scratch
    # worktree instead; it is used only by the mutation / seeded-change tooling (tools/), never by
    # the commands registered in MANIFEST.json.
    want = os.path.realpath(os.environ.get("VOPY_VERIF_REPO", "/repo"))
    sys.path.insert(0, want)
    core.quiet_imports()
    import vopy  # noqa: F401

    repo = os.path.realpath(os.path.dirname(os.path.dirname(vopy.__file__)))
    if repo != want:
        print(f"ERROR: vopy imported from {repo}, not {want}", flush=True)
        sys.exit(core.ERROR)
    if want != "/repo":
        print(f"NOTE: checking the scratch tree {want} (VOPY_VERIF_REPO), not /repo", flush=True)
    if args.replay:
        sys.exit(replay(args.replay))
    if args.prop == "selftest":
        from sim import selftest

        sys.exit(selftest.main(args.sub or "all"))
    master = core.master_seed(DEFAULT_SEED)
    prop = args.prop
    try:
        if prop in RUN_LEVEL:
            from sim import runlevel

            over = {}
            if args.algos:
                over["algos"] = args.algos.split(",")
            if args.envs:
                over["envs"] = args.envs.split(",")
            runlevel.run_check(prop, args.tier, master, n_runs=args.runs, budget_s=args.budget, cfg_over=over or None)
        else:
            from sim import propchecks

            propchecks.run(prop, args.tier, master, n_runs=args.runs, budget_s=args.budget)
    except core.HarnessError as e:
        print(f"ERROR property={prop}: harness failure: {e}", flush=True)
        sys.exit(core.ERROR)


def replay(path):
    with open(path) as f:
        body = json.load(f)
    kind = body.get("kind")
    try:
        if kind == "run-level":
            from sim import runlevel

            rc = runlevel.replay_run_level(body)
        else:
            from sim import propchecks

            rc = propchecks.replay(body)
    except core.HarnessError as e:
        print(f"ERROR: harness failure during replay: {e}", flush=True)
        return core.ERROR
    if rc == 1:
        print(f"VIOLATION property={body.get('property')} replay={path}")
    return rc


if __name__ == "__main__":
    main()
