#!/venv/bin/python
"""MANIFEST.setup_cmd: verify the offline environment; install hypothesis from the wheelhouse
if it is missing.  Nothing is compiled: checks import the current /repo working tree directly."""
import importlib
import os
import subprocess
import sys


def main():
    try:
        importlib.import_module("hypothesis")
    except ImportError:
        subprocess.check_call([sys.executable, "-m", "pip", "install", "--no-index", "--find-links", "/opt/veriftools/wheels", "hypothesis"])
    import warnings

    warnings.filterwarnings("ignore")
    import cvxpy
    import hypothesis  # noqa: F401
    import scipy  # noqa: F401
    import vopy

    repo = os.path.realpath(os.path.dirname(os.path.dirname(vopy.__file__)))
    assert repo == "/repo", f"vopy imported from {repo}"
    solvers = cvxpy.installed_solvers()
    assert "CLARABEL" in solvers and "SCS" in solvers, solvers
    for d in ("evidence", "replays"):
        os.makedirs(os.path.join("/verif", d), exist_ok=True)
    print("setup ok: vopy from /repo, hypothesis", hypothesis.__version__, "solvers", solvers)


if __name__ == "__main__":
    main()
