#!/bin/bash
# soundness sweep: every quick check at several VERIF_SEED values on the current tree
# usage: sweep.sh "<seeds>" ["<props>"]
seeds=${1:-"2 3 4 5 6"}
props=${2:-"C01 C02 C03 C05 C06 C07 C08 C09 C10 C11 C14 C15 C16 C18 C20"}
for s in $seeds; do for p in $props; do
  out=$(VERIF_SEED=$s timeout 1500 /venv/bin/python $(dirname $(realpath $0))/../check.py $p --tier quick 2>&1 | grep -v Warn | grep -E "^(VIOLATION|OK|ERROR)|signature" | cut -c1-260)
  echo "seed=$s $p exit=$? :: $out"
done; done
