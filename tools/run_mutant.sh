#!/bin/bash
# usage: run_mutant.sh <dir with patch.diff> <PROP> [extra check.py args]
# Applies the patch to a scratch worktree of /repo (never to /repo itself), runs the quick check
# against it (VOPY_VERIF_REPO) and removes the worktree.  Exit status = the check's.
set -u
d=$(realpath "$1"); prop=$2; shift 2
wt=/tmp/wt/mut-$$
git -C /repo worktree add -q "$wt" HEAD || exit 3
trap 'git -C /repo worktree remove --force "$wt" >/dev/null 2>&1' EXIT
git -C "$wt" apply "$d/patch.diff" || { echo "run_mutant: patch does not apply" >&2; exit 3; }
cd /verif
VOPY_VERIF_REPO="$wt" timeout 1500 /venv/bin/python check.py "$prop" --tier quick "$@" 2>&1 | grep -v Warn | grep -E "^(VIOLATION|OK|ERROR|KNOWN)|signature" | cut -c1-220
exit ${PIPESTATUS[0]}
