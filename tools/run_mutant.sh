#!/bin/bash
# usage: run_mutant.sh <dir with patch.diff> <PROP> [extra check.py args]
# Applies the patch to /repo, runs the quick check, always restores /repo.  Exit = check's exit.
set -u
d=$(realpath "$1"); prop=$2; shift 2
cd /repo || exit 3
if ! git diff --quiet; then echo "run_mutant: /repo has uncommitted changes; refusing" >&2; exit 3; fi
git apply "$d/patch.diff" || { echo "run_mutant: patch does not apply" >&2; exit 3; }
trap 'cd /repo && git checkout -- . ' EXIT
cd /verif
timeout 1500 /venv/bin/python check.py "$prop" --tier quick "$@" 2>&1 | grep -v Warn | grep -E "^(VIOLATION|OK|ERROR|KNOWN)|signature" | cut -c1-220
exit ${PIPESTATUS[0]}
