#!/bin/bash
# usage: suite_on_patch.sh <dir with patch.diff>: runs the repository's whole unedited test suite on a
# scratch worktree with the patch applied; appends the verdict to <dir>/existing_tests.txt
d=$(realpath "$1")
wt=/tmp/wt/suite-$(basename $d)-$$
git -C /repo worktree add -q "$wt" HEAD || exit 3
trap 'git -C /repo worktree remove --force "$wt" >/dev/null 2>&1' EXIT
git -C "$wt" apply "$d/patch.diff" || exit 3
cd "$wt"
res=$(OMP_NUM_THREADS=2 MKL_NUM_THREADS=2 OPENBLAS_NUM_THREADS=2 PYTHONPATH="$wt" timeout 7000 /venv/bin/python -m pytest -q -p no:cacheprovider --timeout=1800 test 2>&1 | tail -1)
echo "$(date -u +%FT%TZ) whole suite on HEAD $(git -C /repo rev-parse --short HEAD) + patch: $res" | tee -a "$d/existing_tests.txt"
