#!/bin/bash
# Replays every kept replay under /verif/findings on the current /repo tree.
# Replays of OPEN findings must reproduce (exit 1); replays of FIXED defects must run clean (exit 0).
cd /verif
open_files=$(/venv/bin/python -c "import json;print(' '.join(e['replay'] for e in json.load(open('known_findings.json'))['open']))")
bad=0
for f in findings/*.json; do
  timeout 600 /venv/bin/python check.py --replay $f > /tmp/replay.out 2>&1; rc=$?
  if echo " $open_files " | grep -q " $f "; then want=1; kind=open; else want=0; kind=fixed; fi
  if [ $rc -ne $want ]; then bad=1; flag="  <-- UNEXPECTED"; else flag=""; fi
  echo "$kind exit=$rc $f$flag"
done
exit $bad
