#!/bin/bash
# usage: run_seeded.sh <seeded dir> <PROP> [check args]: like run_mutant.sh for seeded/<id>/patch.diff
exec /verif/tools/run_mutant.sh "$@"
