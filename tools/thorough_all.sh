#!/bin/bash
# validation run of every thorough command with a reduced time budget per check (VERIF_BUDGET_S)
props=${1:-"C01 C02 C03 C05 C06 C07 C08 C09 C10 C11 C14 C15 C16 C18 C20"}
for p in $props; do
  out=$(VERIF_BUDGET_S=${VERIF_BUDGET_S:-900} timeout 5000 /venv/bin/python $(dirname $(realpath $0))/../check.py $p --tier thorough 2>&1 | grep -v Warn | grep -E "^(VIOLATION|OK|ERROR|KNOWN)|signature" | cut -c1-240)
  echo "$p exit=$? :: $out"
done
