#!/bin/bash
export VERIF_SEED=${VERIF_SEED:-2}
exec bash $(dirname $(realpath $0))/thorough_all.sh "$@"
