#!/bin/bash
# Re-runs every registered quick check in /verif against /repo (default seed) so that every
# evidence file describes a run of the committed machinery on the committed tree; validates them.
cd /verif
rm -f replays/*.json
for p in $(/venv/bin/python -c "import json;print(' '.join(c['property_id'] for c in json.load(open('MANIFEST.json'))['checks']))"); do
  t0=$(date +%s)
  out=$(timeout 900 /venv/bin/python check.py $p --tier quick 2>&1 | grep -v Warn | grep -E "^(VIOLATION|OK|ERROR)" | head -2 | cut -c1-160)
  echo "$p exit=${PIPESTATUS[0]} $(( $(date +%s) - t0 ))s :: $out"
done
python3-vt - <<'PY'
import json, jsonschema, glob
sch=json.load(open('/root/.vp/EVIDENCE.schema.json'))
man=json.load(open('/verif/MANIFEST.json'))
jsonschema.validate(man, json.load(open('/root/.vp/MANIFEST.schema.json')))
for c in man['checks']:
    e=json.load(open(c['evidence_file'])); jsonschema.validate(e, sch)
    print(c['property_id'], 'evidence ok', e['tier'], e['coverage']['evaluations'], e['coverage']['distinct_nontrivial'], len(e['coverage']['samples']), 'violations', e.get('violations'))
PY
