#!/usr/bin/env python3
"""Writes /verif/MANIFEST.json from one table, so the file stays consistent with check.py."""
import json
import os
import sys

HERE = os.path.dirname(os.path.dirname(os.path.abspath(__file__)))

PY = "/venv/bin/python"
Q = "timeout 900 " + PY + " /verif/check.py {id} --tier quick"
T = "timeout 14000 " + PY + " /verif/check.py {id} --tier thorough"

CLAIMED = {
    # id: (technique, level text, level note, design ref)
    "C01": (
        "deterministic simulation: seeded adversarial-history search + terminal oracle",
        "Seeded search over simulated runs of PaVeBa / PaVeBaGP / PaVeBaPartialGP / Auer against adversarial environments (boundary- and corner-hugging, anisotropic, twin, near-eps histories) that keep the truth inside every displayed region (hypothesis monitored per round; solver-fault rate 0 here); at termination the returned P is judged by independent gap / cone-dominance oracles. Includes a dedicated hunt (rectangles + obtuse cones + gaps in (eps, eps*W alpha/alpha)) that exhibits the open rectangle-slack finding. A clean batch is evidence over the sampled histories, not a proof.",
        "Trusted: sim/oracles.py (NNLS alpha, gap, dominance), the validity monitor, numerical bands; histories limited to the adversary families of DESIGN.md 3.3, K<=8, m<=3, <=400 rounds.",
        "5/C01",
    ),
    "C02": (
        "deterministic simulation: per-phase refinement against an executable reference transition",
        "Every `discarding` phase of every simulated run (7 elimination algorithms, real / adversarial-noise / adversarial-posterior / byzantine environments, injected solver failures) is compared, three-valued, with the reference discard set recomputed from the displayed regions by independent geometry oracles. Exploration: seeded search, minimised replayable counter-examples.",
        "Trusted: reference transitions (sim/refmodel.py) and oracles; decisions inside the numerical band are not judged; VOGP-family reference uses the pessimistic set the real code computes (validated separately under C11).",
        "5/C02",
    ),
    "C03": (
        "deterministic simulation: per-phase refinement against an executable reference transition",
        "Every pareto_updating / epsiloncovering / useful_updating phase of every simulated run is compared, three-valued, with the reference P-entry and useful sets on the displayed regions (Auer: with each design's own displayed half-width; heteroscedastic scenarios make widths differ). Exploration.",
        "Trusted: as C02.",
        "5/C03",
    ),
    "C05": (
        "deterministic simulation: seeded adversarial-history search + terminal oracle",
        "As C01 for VOGP (all cones, u* from an independent KKT oracle) and eps-PAL: valid adversarial posterior histories, planted (1+-eta) eps u* pairs; terminal oracle for eps-isolated optima and internal non-eps-domination.",
        "Trusted: as C01; u* oracle by active-set enumeration.",
        "5/C05",
    ),
    "C06": (
        "deterministic simulation: invariants over every prefix of every run, with fault injection",
        "All nine algorithms x swarm configurations (batch > active set, K_f != m cones, budgets, stepping after completion, injected solver failures): after every step the monotonicity, disjointness, completion-flag, round-counter and exact sample/cost accounting invariants are checked against a recording proxy on algorithm.problem. Exploration.",
        "Trusted: the recording proxy and snapshots; exceptions raised inside VOPy code are C06 events, harness exceptions are ERRORs.",
        "5/C06",
    ),
    "C07": (
        "deterministic simulation: recording proxy + acquisition recomputed on the pre-phase state",
        "Every evaluation of every simulated run: queried designs are active, are the arg-max / in non-increasing order of the acquisition recomputed independently from the pre-phase state, batches are distinct, and exactly the returned (x, y, objective) triples are appended to the model. Exploration.",
        "Trusted: harness recomputation of acquisition values through an independent predict; DecoupledGP's random Thompson-entropy values are checked for selection/bookkeeping only.",
        "5/C07",
    ),
    "C08": (
        "deterministic simulation of the noise seam: per-step Pareto oracle + seeded Monte-Carlo with exact binomial test",
        "(1) every step of seeded runs (real and lattice-noise histories with exact ties): P equals the brute-force Pareto set of the proxy-recorded sample means; (2) seeded Monte-Carlo over independent noise streams of two-design instances with planted gap eps(1+eta) using the object's own default L -- cone angles 1..135 degrees, noise variances 1e-4..100 -- judged by an exact binomial test at level 1e-9 (sound for every seed), cross-validated by the closed-form orthant probability. Statistical exploration.",
        "Trusted: numpy Gaussian generator; the test only detects failure rates well above delta (power stated in evidence).",
        "5/C08",
    ),
    "C09": (
        "deterministic simulation with solver-fault injection + closed-form oracle on run-reached and seeded region pairs",
        "Claimed narrowly: (a) the ellipsoid branch behind the SolverError retry seam must equal the closed-form support-function oracle outside the fallback band under injected primary-solver failures; (b) every call made during simulated runs plus a declared seeded direct workload is compared with the oracle (exact on dyadic rectangles). Exploration.",
        "Trusted: closed-form oracle; bands 1e-6 / 1e-3 (fallback). The direct workload is plain seeded input generation and is reported separately.",
        "5/C09",
    ),
    "C10": (
        "deterministic simulation with solver-fault injection + certificate-checked feasibility oracle",
        "As C09 for `is covered`: both branches sit behind the retry seam and a status-string mapping; under fault rates up to 1.0 the real SCS fallback runs and every status string seen is recorded. Oracle answers are accepted only with a witness or a separating multiplier checked by plain arithmetic. Exploration.",
        "Trusted: certificate arithmetic; bands as C09.",
        "5/C10",
    ),
    "C11": (
        "deterministic simulation: per-call and per-round soundness/completeness monitor against a per-vertex LP oracle",
        "Run-level form of the property: in every round of VOGP / eps-PAL / VOGP_AD runs each pessimistic comparison is sound against the oracle for every cone, complete for 2x2 cones outside the band, and the pessimistic set equals the oracle's for 2x2 cones. Exploration over run-reached rectangle pairs (flat, twin, tiny regions from the adversary) plus a declared seeded direct workload (dyadic / degenerate / stacked rectangles, K_f > m cones) that is reported separately as input generation.",
        "Trusted: per-vertex LP oracle with witness / multiplier certificates; band 1e-7 relative.",
        "5/C11",
    ),
    "C14": (
        "deterministic simulation: Hypothesis stateful machine over design-space updates + in-run monitor",
        "Operation sequences update(model, scale, indices) over index subsets (size 1..N), scale forms, stub and real model classes, both design-space classes and confidence types, checked operation by operation against a reference dict of expected regions; plus the same identity after every modeling phase of run-level simulations. Exploration with shrinking.",
        "Trusted: reference region arithmetic; Hypothesis shrinker.",
        "5/C14",
    ),
    "C15": (
        "deterministic simulation: Hypothesis stateful machine against a committed-data reference model with closed-form GP posterior",
        "add_sample / update / clear_data / predict / hyper-parameter reports / factory helpers over the three GP model classes; the reference tracks the data committed at the last update and predicts by closed-form Cholesky conditioning under hyper-parameters read back from the gpytorch modules. F13 faults: stale reads, clear without update, zero samples, single-point predict, repeated inputs. Plus an in-run monitor: after every evaluating phase of real-GP algorithm runs the prediction equals the closed-form posterior of the reported training data. Exploration with shrinking.",
        "Trusted: closed-form posterior; well-conditioned hyper-parameter range; sizes below gpytorch's Cholesky limit.",
        "5/C15",
    ),
    "C16": (
        "deterministic simulation: Hypothesis stateful machine against an accumulator + in-run monitor",
        "Arbitrary add_sample / update / clear / predict / tracking-toggle histories against a per-design accumulator; plus every PaVeBa / Auer simulated run (interleaved batches over hundreds of rounds). Exploration with shrinking.",
        "Trusted: numpy mean/var.",
        "5/C16",
    ),
    "C18": (
        "deterministic simulation: Hypothesis stateful machine over refinement sequences + VOGP_AD runs with exact dyadic tiling invariants",
        "refine_design on arbitrary leaves interleaved with updates (d=1..3), invariants in exact rational arithmetic; VOGP_AD runs on generated continuous problems with leaf / tiling / max-depth invariants after every step. Exploration.",
        "Trusted: Fraction arithmetic on dyadic cell bounds.",
        "5/C18",
    ),
    "C20": (
        "deterministic simulation of the randomness seam: injected noise draws + seeded moments + input-immutability machine",
        "evaluate() histories over dataset / decoupled / continuous problems with the np.random.normal seam injected (known draws make the sampling law an identity), seeded moment tests with 1e-9 acceptance regions, bit-for-bit input immutability, decoupled components against the same underlying evaluation. The static data-scaling sentence is asserted once and reported as such. Exploration.",
        "Trusted: convention noise_cholesky = lower Cholesky factor of the covariance.",
        "5/C20",
    ),
}

NOT_APPLICABLE = {
    "C04": "Statement about the value of an infinite union-bound series (pure function of K, m, delta, sigma, t -> scale): no history, schedule or fault for a simulator to drive; empirical exit frequency lies far below the bound so simulation could never fail when the property fails (DESIGN.md 5/C04).",
    "C12": "Algebraic laws of a stateless function and trigonometric facts about constructor outputs; no state, randomness or fallible dependency (DESIGN.md 5/C12).",
    "C13": "Pure function of a finite array; exercised (not claimed) through C08(1) and DecoupledGP runs (DESIGN.md 5/C13).",
    "C17": "Optimality of constants computed once from the cone matrix; get_alpha has a conic solve but no fallback seam, so no fault with a defined outcome exists (DESIGN.md 5/C17).",
    "C19": "Stateless evaluation utilities not called by any algorithm; pure functions of their arguments (DESIGN.md 5/C19).",
}


def main():
    built = set(sys.argv[1:]) if len(sys.argv) > 1 else None
    state_file = os.path.join(HERE, "tools", "built.json")
    if built is None:
        built = set(json.load(open(state_file)))
    else:
        json.dump(sorted(built), open(state_file, "w"))
    checks = []
    na = [{"property_id": k, "reason": v} for k, v in NOT_APPLICABLE.items()]
    for pid, (tech, text, note, ref) in CLAIMED.items():
        if pid not in built:
            na.append({"property_id": pid, "reason": "check designed (DESIGN.md section " + ref + ") but not built yet in this round; not claimed until it runs"})
            continue
        checks.append(
            {
                "property_id": pid,
                "quick_cmd": Q.format(id=pid),
                "thorough_cmd": T.format(id=pid),
                "evidence_file": f"/verif/evidence/{pid}.json",
                "replay_cmd_template": PY + " /verif/check.py --replay {path}",
                "engine": "vopy-dsim",
                "level_claimed": {"category": "exploration", "text": text, "design_ref": "DESIGN.md section " + ref},
                "level_note": note,
                "technique": tech,
            }
        )
    na.sort(key=lambda e: e["property_id"])
    man = {
        "version": 1,
        "setup_cmd": "cd /verif && " + PY + " tools/setup_check.py",
        "hooks": {
            "guard": "VOPY_VERIF",
            "enable": "none needed: every seam is an existing module / instance attribute rebound by the harness at run time (checks export VOPY_VERIF=1 for uniformity)",
            "baseline_off_cmd": "cd /repo && env -u VOPY_VERIF /venv/bin/python -m pytest -ra -q -p no:cacheprovider --timeout=900 --continue-on-collection-errors",
            "source_commits": [],
            "add_only": True,
        },
        "engines": [
            {
                "name": "vopy-dsim",
                "path": "/verif/sim",
                "serves_properties": sorted(built),
                "kind_free_text": "single-process deterministic simulator: real VOPy algorithm / design-space / predicate / solver code stepped round by round against seeded adversarial peers (problem, noise, model posterior, solver health), keyed PRNG, event-log digests, replay + minimisation; Hypothesis stateful machines for object-level operation histories",
            }
        ],
        "checks": checks,
        "not_applicable": na,
        "notes": "Exit codes: 0 held / only KNOWN-FINDING lines, 1 VIOLATION, 2 harness ERROR. VERIF_SEED, VERIF_TIER, VERIF_WORKERS, VERIF_BUDGET_S honoured. See DESIGN.md.",
    }
    with open(os.path.join(HERE, "MANIFEST.json"), "w") as f:
        json.dump(man, f, indent=1)
        f.write("\n")
    print("claimed:", [c["property_id"] for c in checks])


if __name__ == "__main__":
    main()
