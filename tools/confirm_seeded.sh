#!/bin/bash
# usage: confirm_seeded.sh <worktree> <id>: copies patch + demo + notes into /verif/seeded/<id>/ and
# confirms the demonstration in both directions inside the worktree (git apply -R / apply).
wt=$1; id=$2
d=/verif/seeded/$id; mkdir -p $d
git -C $wt diff > $d/patch.diff
cp $wt/NOTES.md $d/ 2>/dev/null
demo=$(ls $wt/demo_break.py $wt/demo_break_test.py 2>/dev/null | head -1)
cp $demo $d/
cd $wt
run() { if [[ $demo == *_test.py ]]; then PYTHONPATH=$wt timeout 1800 /venv/bin/python -m pytest -q -p no:cacheprovider $demo 2>&1 | tail -3; else PYTHONPATH=$wt timeout 1800 /venv/bin/python $demo 2>&1 | grep -v Warn | tail -2; fi; return ${PIPESTATUS[0]}; }
run; echo "WITH change: exit=$?"
git apply -R $d/patch.diff
run; echo "WITHOUT change: exit=$?"
git apply $d/patch.diff
git status --short | head -3
