#!/bin/bash
# Runs every mutant under /verif/mutants (or those given) against the quick check of the
# property named in its meta.json; writes mutants/RESULTS.tsv (name, property, exit, first line).
cd /verif
out=mutants/RESULTS.tsv
names=${@:-$(ls mutants | grep -v RESULTS)}
for n in $names; do
  prop=$(/venv/bin/python -c "import json;print(json.load(open('mutants/$n/meta.json'))['property'])")
  t0=$(date +%s)
  res=$(VERIF_WORKERS=${VERIF_WORKERS:-8} tools/run_mutant.sh mutants/$n $prop 2>&1 | grep -v "^KNOWN" | head -3 | tr '\n' ' ' | cut -c1-300)
  code=${PIPESTATUS[0]}
  st=$(echo "$res" | grep -q VIOLATION && echo CAUGHT || echo MISSED)
  echo -e "$n\t$prop\t$st\t$(( $(date +%s) - t0 ))s\t$res" | tee -a $out
done
