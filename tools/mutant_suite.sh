#!/bin/bash
# Runs every broken tree under /verif/mutants and /verif/seeded (or the dirs given) against the quick
# check of the property named in its meta.json; writes sensitivity/RESULTS.tsv.
cd /verif
mkdir -p sensitivity
out=sensitivity/RESULTS.tsv
dirs=${@:-$(ls -d mutants/*/ seeded/*/)}
for d in $dirs; do
  d=${d%/}
  prop=$(/venv/bin/python -c "import json;print(json.load(open('$d/meta.json'))['property'])")
  t0=$(date +%s)
  res=$(VERIF_WORKERS=${VERIF_WORKERS:-12} tools/run_mutant.sh $d $prop 2>&1 | grep -v "^KNOWN" | grep -v "^NOTE" | head -2 | tr '\n' ' ' | cut -c1-260)
  st=$(echo "$res" | grep -q VIOLATION && echo CAUGHT || echo MISSED)
  echo -e "$d\t$prop\t$st\t$(( $(date +%s) - t0 ))s\t$res" | tee -a $out
done
