"""Executable reference model of one round on the displayed regions (DESIGN.md section 4.3).

Every set is computed three-valued: a design is in `must`, in `mustnot`, or free (some
deciding comparison fell inside the numerical band).  A code decision is a violation only if it
contradicts a must / must-not."""
from __future__ import annotations

from typing import Callable, Dict, Iterable, Optional, Set, Tuple

import numpy as np

from . import oracles as O

Tri = Optional[bool]


class PredCache:
    """Memoised three-valued predicate evaluation on region snapshots."""

    def __init__(self, W: np.ndarray, regions: Dict[int, object], band_fn: Callable[[str, int, int], Tuple[float, float]], oracle=None):
        self.W = W
        self.oracle = oracle
        self.regions = regions
        self.band_fn = band_fn
        self.cache: dict = {}
        self.decided = 0
        self.undecided = 0

    def _get(self, kind, i, j, slack_key, fn):
        k = (kind, i, j, slack_key)
        if k not in self.cache:
            jd = fn()
            rel, ab = self.band_fn(kind, i, j)
            d = O.decide(jd, rel, ab)
            if d is None:
                self.undecided += 1
            else:
                self.decided += 1
            self.cache[k] = (d, jd)
        return self.cache[k][0]

    def dom(self, i, j, slack) -> Tri:
        """region i is dominated by region j (+slack)"""
        sk = tuple(np.asarray(slack, float).reshape(-1).tolist())
        return self._get("is_dominated", i, j, sk, lambda: self._o("is_dominated", i, j, slack))

    def cov(self, i, j, slack) -> Tri:
        """region i can be covered by region j (slack)"""
        sk = tuple(np.asarray(slack, float).reshape(-1).tolist())
        return self._get("is_covered", i, j, sk, lambda: self._o("is_covered", i, j, slack))

    def pdom(self, i, j) -> Tri:
        """every point of region i dominates some point of region j"""
        return self._get("check_dominates", i, j, (), lambda: self._o("check_dominates", i, j, None))

    def _o(self, kind, i, j, slack):
        if self.oracle is not None:
            return self.oracle(kind, self.W, self.regions[i], self.regions[j], slack)
        if kind == "is_dominated":
            return O.is_dominated(self.W, self.regions[i], self.regions[j], slack)
        if kind == "is_covered":
            return O.is_covered(self.W, self.regions[i], self.regions[j], slack)
        return O.rect_check_dominates(self.W, self.regions[i], self.regions[j])

    def judgement(self, kind, i, j, slack=()):
        sk = tuple(np.asarray(slack, float).reshape(-1).tolist()) if kind != "check_dominates" else ()
        ent = self.cache.get((kind, i, j, sk))
        return None if ent is None else ent[1]


def tri_exists(vals: Iterable[Tri]) -> Tri:
    """three-valued OR, short-circuiting on the first certain True"""
    unknown = False
    for v in vals:
        if v is True:
            return True
        if v is None:
            unknown = True
    return None if unknown else False


def classify(universe: Iterable[int], pred: Callable[[int], Tri]):
    must, mustnot, free = set(), set(), set()
    for i in universe:
        v = pred(i)
        (must if v is True else mustnot if v is False else free).add(i)
    return must, mustnot, free


# ---------------------------------------------------------------------------------------------
# PaVeBa family
# ---------------------------------------------------------------------------------------------
def paveba_discard(pc: PredCache, S: Set[int], U: Set[int]):
    A = sorted(S | U)
    return classify(sorted(S), lambda i: tri_exists(pc.dom(i, j, 0.0) for j in A if j != i))


def paveba_pareto(pc: PredCache, S1: Set[int], U: Set[int], slack):
    A = sorted(S1 | U)

    def enters(i):
        e = tri_exists(pc.cov(i, j, slack) for j in A if j != i)
        return None if e is None else (not e)

    return classify(sorted(S1), enters)


def paveba_useful(pc: PredCache, P2: Set[int], S2: Set[int], slack):
    Ss = sorted(S2)
    return classify(sorted(P2), lambda p: tri_exists(pc.cov(s, p, slack) for s in Ss))


# ---------------------------------------------------------------------------------------------
# VOGP / VOGP_AD / eps-PAL
# ---------------------------------------------------------------------------------------------
def pessimistic_set(pc: PredCache, Wact: Set[int]):
    """i is in the pessimistic set iff no other active j pessimistically dominates it."""
    A = sorted(Wact)

    def member(i):
        e = tri_exists(pc.pdom(j, i) for j in A if j != i)
        return None if e is None else (not e)

    return classify(A, member)


def vogp_discard(pc: PredCache, S: Set[int], pess: Set[int], slack):
    cand = sorted(S - pess)
    ps = sorted(pess)
    must, mustnot, free = classify(cand, lambda i: tri_exists(pc.dom(i, j, slack) for j in ps))
    mustnot |= S & pess
    return must, mustnot, free


def vogp_cover(pc: PredCache, S1: Set[int], P: Set[int], slack):
    Wact = sorted(S1 | P)

    def enters(i):
        e = tri_exists(pc.cov(i, j, slack) for j in Wact if j != i)
        return None if e is None else (not e)

    return classify(sorted(S1), enters)


# ---------------------------------------------------------------------------------------------
# Auer (rectangles; every comparison with each design's own displayed half-width)
# ---------------------------------------------------------------------------------------------
AUER_REL = 1e-9


def _tri_gt(x: float, y: float, scale: float, strict: bool) -> Tri:
    """x > y (strict) or x >= y (non-strict), three-valued with a tiny float band."""
    band = AUER_REL * max(scale, 1e-300)
    if x - y > band:
        return True
    if x - y < -band:
        return False
    return None


def auer_discard(regions: Dict[int, O.Rect], S: Set[int]):
    Ss = sorted(S)

    def disc(i):
        ri = regions[i]

        def one(j):
            rj = regions[j]
            m_ij = max(0.0, float(np.min(rj.center - ri.center)))
            beta = float(np.max(ri.half + rj.half))
            sc = float(np.max(np.abs(ri.center)) + np.max(np.abs(rj.center)) + beta)
            return _tri_gt(m_ij, beta, sc, True)

        return tri_exists(one(j) for j in Ss if j != i)

    return classify(Ss, disc)


def auer_pareto(regions: Dict[int, O.Rect], S1: Set[int], eps: float):
    """Returns (must, mustnot, free) for entering P this round."""
    Ss = sorted(S1)

    def bigM(i, j):
        return max(0.0, float(np.max(regions[i].center + eps - regions[j].center)))

    def passes(i):
        ri = regions[i]

        def blocks(j):
            rj = regions[j]
            beta = float(np.min(ri.half + rj.half))
            sc = float(np.max(np.abs(ri.center)) + np.max(np.abs(rj.center)) + beta + eps)
            return _tri_gt(beta, bigM(i, j), sc, True)

        e = tri_exists(blocks(j) for j in Ss if j != i)
        return None if e is None else (not e)

    p1_must, p1_not, p1_free = classify(Ss, passes)
    if p1_free:
        # membership of P1 undecided for someone: every downstream decision is left free
        return set(), set(p1_not), set(p1_must) | set(p1_free)
    rest = sorted(S1 - p1_must)

    def enters(p):
        rp = regions[p]

        def needed(i):
            ri = regions[i]
            beta = float(np.min(rp.half + ri.half))
            sc = float(np.max(np.abs(ri.center)) + np.max(np.abs(rp.center)) + beta + eps)
            # held back iff M(i,p) <= beta
            v = _tri_gt(beta, bigM(i, p), sc, False)
            return v

        e = tri_exists(needed(i) for i in rest)
        return None if e is None else (not e)

    must, mustnot, free = classify(sorted(p1_must), enters)
    mustnot |= p1_not
    return must, mustnot, free
