"""Simulated environment: the seams of DESIGN.md section 2 and the adversaries of section 3.3.

All rebinding happens at run time on module / instance attributes of the *imported* /repo tree;
nothing in /repo is edited.
"""
from __future__ import annotations

import math
from collections import Counter
from typing import Optional

import cvxpy as cp
import numpy as np
import torch

import vopy.algorithms.auer as m_auer
import vopy.algorithms.decoupled as m_dec
import vopy.algorithms.epal as m_epal
import vopy.algorithms.naive_elimination as m_naive
import vopy.algorithms.paveba as m_paveba
import vopy.algorithms.paveba_gp as m_pgp
import vopy.algorithms.paveba_partial_gp as m_ppgp
import vopy.algorithms.vogp as m_vogp
import vopy.algorithms.vogp_ad as m_vad
import vopy.confidence_region as m_cr
import vopy.datasets.dataset as m_ds
import vopy.models.gpytorch as m_gp
from vopy.datasets import Dataset
from vopy.maximization_problem import ContinuousProblem
from vopy.order import ComponentwiseOrder, ConeOrder3D, ConeOrder3DIceCream, ConeTheta2DOrder, PolyhedralConeOrder
from vopy.ordering_cone import OrderingCone

from . import oracles as O
from .core import keyed_rng

ALGO_MODULES = {
    "PaVeBa": m_paveba,
    "PaVeBaGP": m_pgp,
    "PaVeBaPartialGP": m_ppgp,
    "Auer": m_auer,
    "VOGP": m_vogp,
    "VOGP_AD": m_vad,
    "EpsilonPAL": m_epal,
    "NaiveElimination": m_naive,
    "DecoupledGP": m_dec,
}


def algo_class(name):
    return getattr(ALGO_MODULES[name], name)


# ----------------------------------------------------------------------------------------------
# run context (one per simulated run; None outside a run => every seam is a pass-through)
# ----------------------------------------------------------------------------------------------
class RunContext:
    def __init__(self, log, fault_key: int = 0, solver_rate: float = 0.0, pred_hook=None):
        self.log = log
        self.fault_key = fault_key
        self.solver_rate = solver_rate
        self.faults = Counter()
        self.probes = Counter()
        self.round = 0
        self.phase = "init"
        self.solve_idx = 0
        self.in_predicate = 0
        self.fallback_in_call = False
        self.pred_hook = pred_hook  # callable(kind, order, r1, r2, slack, result, faulted)
        self.solves = 0
        self.hyper = None  # hyper-parameters for the stubbed fit
        self.last_status = None


CTX: Optional[RunContext] = None


def set_ctx(ctx: Optional[RunContext]):
    global CTX
    CTX = ctx


# ----------------------------------------------------------------------------------------------
# seam 1: cvxpy.Problem.solve  (solver health is simulated; solvers are real)
# ----------------------------------------------------------------------------------------------
_ORIG_SOLVE = cp.Problem.solve
_INSTALLED = False


def _solve_wrapper(self, *args, **kwargs):
    ctx = CTX
    if ctx is None or ctx.in_predicate == 0:
        return _ORIG_SOLVE(self, *args, **kwargs)
    primary = "solver" not in kwargs and not args
    if primary:
        ctx.solve_idx += 1
        if ctx.solver_rate > 0:
            if ctx.solver_rate >= 1.0 or keyed_rng(ctx.fault_key, ctx.round, hash_phase(ctx.phase), ctx.solve_idx).random() < ctx.solver_rate:
                ctx.faults["F1_solver_error_injected"] += 1
                ctx.fallback_in_call = True
                ctx.log.add("fault", fault="F1", round=ctx.round, phase=ctx.phase, k=ctx.solve_idx)
                raise cp.error.SolverError("injected by simulator (F1)")
    else:
        ctx.probes["fallback_solve_taken"] += 1
        if not ctx.fallback_in_call:
            # the primary solver failed *by itself* (no injected fault): rare, but it happens on
            # LPs within ~1e-5 of infeasibility; the call is judged with the fallback band
            ctx.probes["fallback_solve_natural"] += 1
        ctx.fallback_in_call = True
    ctx.solves += 1
    val = _ORIG_SOLVE(self, *args, **kwargs)
    ctx.probes["status:" + str(self.status) + ("" if primary else ":fallback")] += 1
    ctx.last_status = str(self.status)
    return val


def hash_phase(p: str) -> int:
    return sum((i + 1) * ord(c) for i, c in enumerate(p)) % 100003


# ----------------------------------------------------------------------------------------------
# seam 2: the three confidence_region_* names in each algorithm module (recording pass-through)
# ----------------------------------------------------------------------------------------------
def _make_pred_wrapper(kind: str):
    def wrapper(order, region1, region2, *rest):
        # always resolve the *current* implementation in vopy.confidence_region
        impl = getattr(m_cr, "confidence_region_" + kind)
        ctx = CTX
        if ctx is None:
            return impl(order, region1, region2, *rest)
        ctx.in_predicate += 1
        ctx.fallback_in_call = False
        try:
            res = impl(order, region1, region2, *rest)
        finally:
            ctx.in_predicate -= 1
        faulted = ctx.fallback_in_call
        ctx.fallback_in_call = False
        ctx.probes["pred_calls:" + kind] += 1
        if ctx.pred_hook is not None:
            ctx.pred_hook(kind, order, region1, region2, rest[0] if rest else None, res, faulted)
        ctx.last_status = None
        return res

    wrapper.__name__ = "sim_confidence_region_" + kind
    return wrapper


PRED_WRAPPERS = {k: _make_pred_wrapper(k) for k in ("is_dominated", "is_covered", "check_dominates")}


# ----------------------------------------------------------------------------------------------
# seam 3: hyper-parameter fitting (stubbed in run-level simulation)
# ----------------------------------------------------------------------------------------------
_ORIG_FIT = m_gp.fit_gpytorch_mll


def _fit_stub(mll, *a, **k):
    ctx = CTX
    if ctx is None or ctx.hyper is None:
        return _ORIG_FIT(mll, *a, **k)
    apply_hyper(mll.model, ctx.hyper)
    ctx.probes["fit_stubbed"] += 1
    return mll


def apply_hyper(gpmodel, hyper: dict):
    """Set seeded, well-conditioned hyper-parameters on a gpytorch model built by vopy."""
    import gpytorch

    with torch.no_grad():
        if isinstance(gpmodel, m_gp.BatchIndependentExactGPModel):
            m = gpmodel.covar_module.outputscale.shape[0]
            d = gpmodel.covar_module.base_kernel.lengthscale.shape[-1]
            ls = torch.tensor(np.asarray(hyper["lengthscale"], float)[:m, :d]).reshape(m, 1, d)
            gpmodel.covar_module.base_kernel.lengthscale = ls
            gpmodel.covar_module.outputscale = torch.tensor(np.asarray(hyper["outputscale"], float)[:m])
        elif isinstance(gpmodel, m_gp.MultitaskExactGPModel):
            d = gpmodel.covar_module.data_covar_module.lengthscale.shape[-1]
            m = gpmodel.covar_module.task_covar_module.var.shape[-1]
            gpmodel.covar_module.data_covar_module.lengthscale = torch.tensor(np.asarray(hyper["lengthscale"], float)[0, :d]).reshape(1, d)
            B = np.asarray(hyper["task_factor"], float)[:m, :m]
            gpmodel.covar_module.task_covar_module.covar_factor.copy_(torch.tensor(B))
            gpmodel.covar_module.task_covar_module.var = torch.tensor(np.asarray(hyper["task_var"], float)[:m])
        elif isinstance(gpmodel, gpytorch.models.IndependentModelList):
            for i, sub in enumerate(gpmodel.models):
                d = sub.covar_module.base_kernel.lengthscale.shape[-1]
                sub.covar_module.base_kernel.lengthscale = torch.tensor(np.asarray(hyper["lengthscale"], float)[i, :d]).reshape(1, d)
                sub.covar_module.outputscale = torch.tensor(float(np.asarray(hyper["outputscale"], float)[i]))
                sub.mean_module.constant = torch.tensor(float(np.asarray(hyper["mean_const"], float)[i]))
        else:  # pragma: no cover
            raise TypeError(type(gpmodel))


def gen_hyper(rng: np.random.Generator, m: int = 4, d: int = 6) -> dict:
    A = rng.normal(size=(m, m)) * 0.5
    return {
        "lengthscale": rng.uniform(0.3, 1.2, size=(m, d)).tolist(),
        "outputscale": rng.uniform(0.5, 2.0, size=m).tolist(),
        "task_factor": (A + np.eye(m) * rng.uniform(0.5, 1.0)).tolist(),
        "task_var": rng.uniform(0.05, 0.5, size=m).tolist(),
        "mean_const": rng.normal(size=m).tolist(),
    }


def install_seams():
    global _INSTALLED
    if _INSTALLED:
        return
    cp.Problem.solve = _solve_wrapper
    for name, mod in ALGO_MODULES.items():
        for kind, w in PRED_WRAPPERS.items():
            attr = "confidence_region_" + kind
            if hasattr(mod, attr):
                setattr(mod, attr, w)
    m_gp.fit_gpytorch_mll = _fit_stub
    _INSTALLED = True


# ----------------------------------------------------------------------------------------------
# seam 4: dataset registry
# ----------------------------------------------------------------------------------------------
class SimDataset(Dataset):
    """A user-defined dataset whose values are exposed exactly as generated (no rescaling),
    so that planted gaps keep their size.  `scaled=True` runs the repo's Dataset.__init__."""

    def __init__(self, X, Y, scaled=False):
        self.in_data = np.array(X, dtype=float)
        self.out_data = np.array(Y, dtype=float)
        self._in_dim = self.in_data.shape[1]
        self._out_dim = self.out_data.shape[1]
        self._cardinality = len(self.in_data)
        if scaled:
            Dataset.__init__(self)
        else:
            self.in_dim = self._in_dim
            self.out_dim = self._out_dim


def register_dataset(name: str, X, Y, scaled=False):
    X = np.array(X, dtype=float)
    Y = np.array(Y, dtype=float)

    def factory():
        return SimDataset(X.copy(), Y.copy(), scaled=scaled)

    setattr(m_ds, name, factory)
    return name


def unregister_dataset(name: str):
    if hasattr(m_ds, name):
        delattr(m_ds, name)


# ----------------------------------------------------------------------------------------------
# cones
# ----------------------------------------------------------------------------------------------
_CONE_CACHE: dict = {}


def build_order(spec: dict) -> PolyhedralConeOrder:
    key = repr(sorted(spec.items(), key=lambda kv: kv[0]))
    if key in _CONE_CACHE:
        return _CONE_CACHE[key]
    k = spec["kind"]
    if k == "componentwise":
        o = ComponentwiseOrder(int(spec["m"]))
    elif k == "theta2d":
        o = ConeTheta2DOrder(float(spec["deg"]))
    elif k == "cone3d":
        o = ConeOrder3D(spec["type"])
    elif k == "icecream":
        o = ConeOrder3DIceCream(float(spec["deg"]), int(spec["K"]))
    elif k == "matrix":
        o = PolyhedralConeOrder(OrderingCone(np.array(spec["W"], dtype=float)))
    else:
        raise ValueError(k)
    _CONE_CACHE[key] = o
    return o


def random_cone_matrix(rng: np.random.Generator, m: int, K: int) -> np.ndarray:
    """Unit rows, K >= m facets, all making an acute angle with a common interior direction and
    spanning R^m (pointed cone with non-empty interior)."""
    if K < m:
        raise ValueError("a pointed cone with interior needs at least m facets")
    axis = np.ones(m) / math.sqrt(m)
    while True:
        rows = []
        for _ in range(K):
            v = rng.normal(size=m)
            v -= (v @ axis) * axis
            v /= np.linalg.norm(v)
            ang = rng.uniform(math.radians(15), math.radians(75))
            rows.append(math.cos(ang) * axis + math.sin(ang) * v)
        W = np.array(rows)
        if np.linalg.matrix_rank(W) == m and np.linalg.cond(W[:m]) < 50:
            return W


# ----------------------------------------------------------------------------------------------
# problem proxies
# ----------------------------------------------------------------------------------------------
class RecordingProblem:
    """Pass-through proxy on algorithm.problem that records every evaluate() call."""

    def __init__(self, inner, ctx: RunContext):
        self._inner = inner
        self._ctx = ctx
        self.calls = []  # (x, eval_index, y)

    def __getattr__(self, name):
        return getattr(self._inner, name)

    def evaluate(self, x, *args, **kwargs):
        x_before = np.array(x, dtype=float).copy()
        y = self._inner.evaluate(x, *args, **kwargs)
        idx = args[0] if args else kwargs.get("evaluation_index")
        self.calls.append((x_before, None if idx is None else np.array(idx).copy(), np.array(y).copy()))
        self._ctx.log.add("evaluate", x=x_before, idx=idx, y=y)
        return y


class SimProblem:
    """Simulated problem on a fixed design set: nearest-design lookup + noise owned by the
    simulator (per-design noise levels, F8) or adversarial observations (noise adversary)."""

    def __init__(self, X, mu, noise_sd, rng_key: int, adversary=None, ids=None):
        self.ids = list(ids) if ids is not None else list(range(len(X)))
        self.X = np.asarray(X, float)
        self.mu = np.asarray(mu, float)
        self.noise_sd = np.asarray(noise_sd, float).reshape(-1)  # per design
        self.noise_var = float(np.mean(self.noise_sd**2))
        self.key = rng_key
        self.count = np.zeros(len(self.X), dtype=int)
        self.adversary = adversary
        self.in_dim = self.X.shape[1]
        self.out_dim = self.mu.shape[1]

    def locate(self, x):
        x = np.asarray(x, float)
        if x.ndim == 1:
            x = x.reshape(1, -1)
        d = ((x[:, None, :] - self.X[None, :, :]) ** 2).sum(-1)
        return np.argmin(d, axis=1)

    def evaluate(self, x, noisy: bool = True):
        idx = self.locate(x)
        out = np.zeros((len(idx), self.out_dim))
        for r, i in enumerate(idx):
            n = int(self.count[i]) + 1
            self.count[i] = n
            if not noisy:
                out[r] = self.mu[i]
            elif self.adversary is not None:
                out[r] = self.adversary.observation(int(i), n)
            else:
                z = keyed_rng(self.key, 7, self.ids[int(i)], n).normal(size=self.out_dim)
                out[r] = self.mu[i] + self.noise_sd[i] * z
        return out


class NoiseAdversary:
    """Chooses the running mean design i displays after its n-th sample and returns the
    observation that produces it (DESIGN.md 3.3).  Scale = the radius / width the algorithm is
    about to compute for this round, obtained from the algorithm's own pure schedule function."""

    def __init__(self, algo_ref, mu, W, adv: dict, key: int, ids=None):
        self.ids = list(ids) if ids is not None else list(range(len(mu)))
        self.algo_ref = algo_ref  # callable returning the algorithm object
        self.mu = np.asarray(mu, float)
        self.W = W
        self.adv = adv
        self.key = key
        self.sums = np.zeros_like(self.mu)
        self.moves = Counter()

    def scale_now(self) -> float:
        a = self.algo_ref()
        if hasattr(a, "compute_radius"):
            return float(a.compute_radius())
        # Auer: lower bound of beta over sample variances (v_hat >= 0)
        if getattr(a, "use_empirical_beta", False):
            t1 = np.log((a.design_space.cardinality * a.m * a.round) / a.delta)
            return float(np.sqrt((2 * t1 * (np.sqrt((4 * t1) / a.round))) / a.round) / a.conf_contraction)
        return float(np.min(a.compute_beta()))

    def observation(self, i: int, n: int) -> np.ndarray:
        m = self.mu.shape[1]
        rng = keyed_rng(self.key, 11, self.ids[i], n)
        rho = draw_rho(rng, self.adv)
        a = self.algo_ref()
        ball = hasattr(a, "compute_radius")
        u = draw_direction(rng, self.mu, i, self.W, ball=ball)
        r = self.scale_now()
        target = self.mu[i] + rho * r * u
        y = n * target - self.sums[i]
        self.sums[i] = self.sums[i] + y
        self.moves["rho>=0.95" if rho >= 0.95 else "rho<0.95"] += 1
        return y


class LatticeNoise:
    """Dyadic lattice noise: running means of different designs tie and chain exactly."""

    def __init__(self, mu, key, ids=None):
        self.mu = np.asarray(mu, float)
        self.key = key
        self.ids = list(ids) if ids is not None else list(range(len(mu)))
        self.moves = Counter()

    def observation(self, i: int, n: int) -> np.ndarray:
        rng = keyed_rng(self.key, 13, self.ids[i], n)
        return self.mu[i] + rng.choice([-0.5, -0.25, 0.0, 0.0, 0.25, 0.5], size=self.mu.shape[1])


def draw_rho(rng, adv) -> float:
    mode = adv.get("rho_mode", "mix")
    byz = adv.get("byzantine", False)
    if mode == "zero":
        return 0.0
    c = rng.random()
    if byz and c < 0.3:
        return float(rng.uniform(1.0, 3.0))
    if mode == "hug":
        return float(rng.choice([0.95, 0.999, 0.9]))
    if c < 0.25:
        return 0.0
    if c < 0.6:
        return float(rng.uniform(0, 1) * 0.98)
    if c < 0.85:
        return 0.95
    return 0.999


def draw_direction(rng, mu, i, W, ball: bool) -> np.ndarray:
    """Unit vector (ball) or sup-norm-1 vector (box), biased towards +-facet normals and
    +-(mu_j - mu_i): the directions in which a wrong comparison hurts."""
    m = mu.shape[1]
    c = rng.random()
    if not ball and rng.random() < 0.3:
        # a corner of the box: the extreme valid position, where an unsound shortcut in a
        # rectangle comparison (e.g. looking at one corner pair only) is exposed
        return rng.choice([-1.0, 1.0], size=m)
    if c < 0.35 and W is not None:
        v = W[int(rng.integers(len(W)))] * rng.choice([-1.0, 1.0])
    elif c < 0.7 and len(mu) > 1:
        j = int(rng.integers(len(mu) - 1))
        j = j if j < i else j + 1
        v = (mu[j] - mu[i]) * rng.choice([-1.0, 1.0])
        if not np.any(v):
            v = rng.normal(size=m)
    else:
        v = rng.normal(size=m)
    v = v + 0.05 * rng.normal(size=m) * np.linalg.norm(v)
    if ball:
        return v / np.linalg.norm(v)
    return v / np.max(np.abs(v))


# ----------------------------------------------------------------------------------------------
# posterior adversary: stub model
# ----------------------------------------------------------------------------------------------
class StubGP:
    """Stub `Model` whose posterior is chosen by the simulator.

    predict() is a pure function of (design, algorithm round, samples seen for the design), so
    repeated calls inside a round agree and removing a design never changes another's moves."""

    def __init__(self, algo_ref, points, mu, W, adv: dict, key: int, output_dim: int, diagonal: bool, decoupled: bool, ids=None):
        self.ids = list(ids) if ids is not None else list(range(len(points)))
        self.algo_ref = algo_ref
        self.points = np.asarray(points, float)
        self.mu = np.asarray(mu, float)
        self.W = W
        self.adv = adv
        self.key = key
        self.output_dim = output_dim
        self.input_dim = self.points.shape[1]
        self.diagonal = diagonal
        self.decoupled = decoupled
        K = len(self.points)
        self.n = np.zeros((K, output_dim), dtype=int)
        self.added = []  # every add_sample call (x, y, idx) for C07
        self.pending = 0
        self._index = {tuple(np.round(p, 12)): i for i, p in enumerate(self.points)}
        self.base_s = np.zeros((K, output_dim))
        for i in range(K):
            rng = keyed_rng(key, 3, self.ids[i])
            self.base_s[i] = np.exp(rng.uniform(math.log(adv.get("s_lo", 0.3)), math.log(adv.get("s_hi", 1.5)), size=output_dim))
            if adv.get("aniso", False):
                self.base_s[i] *= np.exp(rng.uniform(-math.log(adv.get("cond", 100.0)) / 2, math.log(adv.get("cond", 100.0)) / 2, size=output_dim))
        self.rot = []
        for i in range(K):
            if diagonal or not adv.get("rotate", True):
                self.rot.append(np.eye(output_dim))
            else:
                Q, _ = np.linalg.qr(keyed_rng(key, 5, self.ids[i]).normal(size=(output_dim, output_dim)))
                self.rot.append(Q)
        self.degenerate = set()
        if adv.get("degenerate", False) and diagonal:
            for i in range(K):
                if keyed_rng(key, 6, self.ids[i]).random() < 0.3:
                    self.degenerate.add((i, int(keyed_rng(key, 6, self.ids[i], 1).integers(output_dim))))
        self.twins = adv.get("twins", [])  # list of [i, j]: j copies i's posterior while both unsampled-differently
        self.moves = Counter()

    # --- Model interface -----------------------------------------------------------------
    def locate(self, X):
        X = np.asarray(X, float)
        if X.ndim == 1:
            X = X.reshape(1, -1)
        out = []
        for row in X[:, : self.input_dim]:
            k = tuple(np.round(row, 12))
            if k in self._index:
                out.append(self._index[k])
            else:
                d = ((self.points - row) ** 2).sum(-1)
                out.append(int(np.argmin(d)))
        return out

    def add_sample(self, X_t, Y_t, dim_index=None):
        idx = self.locate(X_t)
        Y_t = np.asarray(Y_t)
        self.added.append((np.array(X_t, float).copy(), Y_t.copy(), None if dim_index is None else np.array(dim_index).copy()))
        if dim_index is None:
            for i in idx:
                self.n[i, :] += 1
        elif isinstance(dim_index, (int, np.integer)):
            for i in idx:
                self.n[i, int(dim_index)] += 1
        else:
            for i, d in zip(idx, dim_index):
                self.n[i, int(d)] += 1
        self.pending += 1

    def update(self):
        self.pending = 0

    def train(self):
        pass

    def clear_data(self):
        self.n[:] = 0

    def _scale(self):
        a = self.algo_ref()
        for nm in ("compute_alpha", "compute_beta"):
            if hasattr(a, nm):
                try:
                    return np.asarray(getattr(a, nm)(), float)
                except Exception:
                    return np.asarray(1.0)
        return np.asarray(1.0)

    def sigma_of(self, i: int, t: int) -> np.ndarray:
        g = self.adv.get("gamma", 0.6)
        gr = self.adv.get("gamma_round", 1.0)
        s2 = (self.base_s[i] ** 2) * (g ** self.n[i]) * (gr**t)
        if self.adv.get("jump", False):
            # non-nested jump (F5): occasionally inflate again
            if keyed_rng(self.key, 8, self.ids[i], t).random() < 0.1:
                s2 = s2 * 4.0
        # keep the adversarial covariance inside the stated family (condition number <= 1e6): with
        # decoupled sampling one objective can be sampled dozens of times more often than another
        s2 = np.maximum(s2, float(np.max(s2)) * 1e-6)
        for (ii, d) in self.degenerate:
            if ii == i:
                s2 = s2.copy()
                s2[d] = 0.0
        R = self.rot[i]
        return (R * s2) @ R.T

    def predict(self, test_X):
        a = self.algo_ref()
        t = int(getattr(a, "round", 0))
        idx = self.locate(test_X)
        scale = self._scale()
        mus, covs = [], []
        for i in idx:
            src = i
            for tw in self.twins:
                if tw[1] == i and t < tw[2]:
                    src = tw[0]
            S = self.sigma_of(src, t)
            nsum = int(self.n[src].sum())
            rng = keyed_rng(self.key, 9, self.ids[src], t, nsum)
            rho = draw_rho(rng, self.adv)
            ell = not self.diagonal and self._is_ellipsoid(a)
            if ell:
                u = draw_direction(rng, self.mu, src, self.W, ball=True)
                w, V = np.linalg.eigh((S + S.T) / 2)
                Sh = (V * np.sqrt(np.maximum(w, 0))) @ V.T
                disp = float(np.asarray(scale).reshape(-1)[0]) * rho * (Sh @ u)
            else:
                v = draw_direction(rng, self.mu, src, self.W, ball=False)
                sc = np.asarray(scale, float).reshape(-1)
                sc = sc if sc.size == self.output_dim else np.full(self.output_dim, sc[0])
                disp = rho * sc * np.sqrt(np.maximum(np.diag(S), 0)) * v
            center = self.mu[src] if src == i else self.mu[src]
            mus.append(center + disp)
            covs.append(S)
            self.moves["rho>=0.95" if rho >= 0.95 else "rho<0.95"] += 1
        return np.array(mus), np.array(covs)

    @staticmethod
    def _is_ellipsoid(a):
        try:
            return not hasattr(a.design_space.confidence_regions[0], "lower")
        except Exception:
            return False


# ----------------------------------------------------------------------------------------------
# a tiny continuous problem family for VOGP_AD
# ----------------------------------------------------------------------------------------------
class SimContinuousProblem(ContinuousProblem):
    """User-defined continuous problem on [0,1]^d: smooth random features, m objectives."""

    def __init__(self, in_dim: int, out_dim: int, depth_max: int, noise_var: float, key: int):
        self.in_dim = in_dim
        self.out_dim = out_dim
        self.depth_max = depth_max
        self.bounds = [(0.0, 1.0)] * in_dim
        rng = keyed_rng(key, 21)
        self.A = rng.normal(size=(out_dim, 3, in_dim)) * 2.0
        self.b = rng.uniform(0, 2 * math.pi, size=(out_dim, 3))
        self.c = rng.normal(size=(out_dim, 3)) * 0.7
        super().__init__(noise_var)

    def evaluate_true(self, x: np.ndarray) -> np.ndarray:
        x = np.asarray(x, float)
        out = np.zeros((len(x), self.out_dim))
        for o in range(self.out_dim):
            out[:, o] = np.sum(self.c[o][None, :] * np.sin(x @ self.A[o].T + self.b[o][None, :]), axis=1)
        return out
