"""C14: displayed confidence regions are exactly the model's prediction scaled.

Hypothesis stateful machine over design_space.update(model, scale, indices) for both design-space
classes, both confidence types, stub and real model classes; plus the in-run identity after every
`modeling` phase of run-level simulations (runner.check_modeling)."""
from __future__ import annotations

import math
import time

import numpy as np
from hypothesis import strategies as st
from hypothesis.stateful import RuleBasedStateMachine, initialize, rule

from .. import core
from ..core import keyed_rng
from . import common
from .common import Violation

REC = common.REC


class TablePred:
    """Stub model with a known prediction table (fixed design sets)."""

    def __init__(self, points, m, seed, ell):
        self.points = np.asarray(points, float)
        self.m = m
        self.ell = ell
        self.version(seed)

    def version(self, seed):
        rng = keyed_rng(seed, 41)
        N = len(self.points)
        self.mu = rng.normal(size=(N, self.m)) * rng.choice([0.1, 1.0, 10.0])
        covs = []
        for i in range(N):
            if self.ell:
                A = rng.normal(size=(self.m, self.m))
                covs.append(A @ A.T + 0.05 * np.eye(self.m))
            else:
                covs.append(np.diag(np.abs(rng.normal(size=self.m)) * rng.choice([1e-3, 0.1, 2.0])))
        self.cov = np.array(covs)

    def predict(self, X):
        X = np.asarray(X, float)
        idx = [int(np.argmin(((self.points - x[None, : self.points.shape[1]]) ** 2).sum(-1))) for x in X]
        return self.mu[idx].copy(), self.cov[idx].copy()

    def add_sample(self, *a, **k):
        pass

    def update(self):
        pass

    def train(self):
        pass


class FuncPred:
    """Stub model predicting deterministic functions of the input (adaptive design spaces)."""

    def __init__(self, m, seed):
        self.m = m
        self.version(seed)

    def version(self, seed):
        rng = keyed_rng(seed, 43)
        self.a = rng.normal(size=(self.m, 3)) * 2
        self.b = rng.uniform(0, 6, size=self.m)
        self.s = np.abs(rng.normal(size=self.m)) + 0.05

    def predict(self, X):
        X = np.asarray(X, float)
        z = X[:, :1] if X.shape[1] == 1 else X[:, :3]
        mu = np.stack([np.sin(z @ self.a[o, : z.shape[1]] + self.b[o]) for o in range(self.m)], axis=1)
        sd = np.stack([self.s[o] * (1 + 0.5 * np.cos(3 * z[:, 0] + o)) for o in range(self.m)], axis=1)
        cov = np.array([np.diag(r**2) for r in sd])
        return mu, cov

    def add_sample(self, *a, **k):
        pass

    def update(self):
        pass

    def train(self):
        pass


def expected_scale_rows(form, seed, n_idx, m):
    rng = keyed_rng(seed, 47)
    base = float(rng.choice([0.5, 1.0, 2.0, 3.7]))
    if form == "scalar":
        s = np.array(base)
        rows = np.full((n_idx, 1), base)
    elif form == "vec1":
        s = np.array([base])
        rows = np.full((n_idx, 1), base)
    elif form == "per_obj":
        v = base * rng.uniform(0.5, 2.0, size=m)
        s = v.copy()
        rows = np.repeat(v[None, :], n_idx, axis=0)
    elif form == "per_design1":
        rows = base * rng.uniform(0.5, 2.0, size=(n_idx, 1))
        s = rows.copy()
    else:  # per_design
        rows = base * rng.uniform(0.5, 2.0, size=(n_idx, m))
        s = rows.copy()
    return s, rows


class Exec(common.BaseExec):
    PROP = "C14"


    def fail(self, cls, detail):
        self.violation(f"C14:{cls}:{self.space_kind}:{self.conf}:{self.model_kind}", detail)

    # ------------------------------------------------------------------------------------
    def make_model(self, seed):
        from vopy.models import CorrelatedExactGPyTorchModel, EmpiricalMeanVarModel, GPyTorchModelListExactModel, IndependentExactGPyTorchModel

        from .. import env as E

        k = self.model_kind
        d, m = self.d, self.m
        rng = keyed_rng(seed, 53)
        hyper = E.gen_hyper(keyed_rng(seed, 54))
        n0 = 4
        X0 = rng.uniform(0, 1, size=(n0, d))
        Y0 = rng.normal(size=(n0, m))
        if k == "stub":
            return TablePred(self.ds.points, m, seed, self.conf == "ell") if self.space_kind == "fixed" else FuncPred(m, seed)
        if k == "emp":
            mod = EmpiricalMeanVarModel(d, m, 0.1, len(self.ds.points), track_means=True, track_variances=True)
            for t in range(3):
                mod.add_sample(list(range(len(self.ds.points))), rng.normal(size=(len(self.ds.points), m)))
            mod.update()
            return mod
        if k in ("indep", "corr"):
            cls = IndependentExactGPyTorchModel if k == "indep" else CorrelatedExactGPyTorchModel
            mod = cls(d, m, 0.05)
            mod.add_sample(X0, Y0)
            mod.update()
            E.apply_hyper(mod.model, hyper)
            return mod
        mod = GPyTorchModelListExactModel(d, m, 0.05)
        for o in range(m):
            mod.add_sample(X0, Y0[:, o], o)
        mod.update()
        E.apply_hyper(mod.model, hyper)
        return mod

    def change_model(self, seed):
        k = self.model_kind
        rng = keyed_rng(seed, 59)
        if k == "stub":
            self.model.version(seed)
        elif k == "emp":
            n = len(self.ds.points)
            idx = sorted(set(int(i) for i in rng.integers(0, n, size=max(1, n // 2))))
            self.model.add_sample(idx, rng.normal(size=(len(idx), self.m)))
            self.model.update()
        elif k in ("indep", "corr"):
            self.model.add_sample(rng.uniform(0, 1, size=(2, self.d)), rng.normal(size=(2, self.m)))
            self.model.update()
        else:
            o = int(rng.integers(self.m))
            self.model.add_sample(rng.uniform(0, 1, size=(2, self.d)), rng.normal(size=2), o)
            self.model.update()

    def full_predict(self):
        """Independent prediction on the full design matrix, always >= 2 rows."""
        pts = np.asarray(self.ds.points, float)
        q = np.vstack([pts, pts[:1]])
        mus, covs = self.model.predict(q)
        return np.asarray(mus, float)[: len(pts)], np.asarray(covs, float)[: len(pts)]

    def snapshot(self):
        from .. import oracles as O

        return [O.snapshot_region(r) for r in self.ds.confidence_regions]

    # ------------------------------------------------------------------------------------
    def _apply(self, op):
        from vopy.design_space import AdaptivelyDiscretizedDesignSpace, FixedPointsDesignSpace

        from .. import oracles as O

        name = op[0]
        if name == "init":
            _, space_kind, conf, N, d, m, intersect, model_kind, seed = op
            self.space_kind, self.conf, self.d, self.m, self.model_kind = space_kind, conf, d, m, model_kind
            rng = keyed_rng(seed, 61)
            if space_kind == "fixed":
                X = np.round(rng.uniform(0, 1, size=(N, d)), 6)
                if model_kind == "emp":
                    X = np.hstack([X, np.arange(N)[:, None]])
                self.ds = FixedPointsDesignSpace(X, m, confidence_type="hyperrectangle" if conf == "rect" else "hyperellipsoid")
            else:
                self.ds = AdaptivelyDiscretizedDesignSpace(d, m, delta=0.1, max_depth=4, confidence_type="hyperrectangle")
            self.intersect = bool(intersect) and conf == "rect"
            if self.intersect:
                for r in self.ds.confidence_regions:
                    r.intersect_iteratively = True
            self.model = self.make_model(seed)
            self.expected = self.snapshot()
        elif name == "change_model":
            self.change_model(op[1])
        elif name == "refine":
            i = op[1] % len(self.ds.points)
            if self.ds.point_depths[i] >= self.ds.max_depth:
                return
            parent = self.expected[i]
            kids = self.ds.refine_design(i)
            if self.intersect:
                for k in kids:
                    self.ds.confidence_regions[k].intersect_iteratively = True
            # children start from the parent's region (C18); here only the bookkeeping matters
            while len(self.expected) < len(self.ds.points):
                self.expected.append(O.Rect(parent.lower.copy(), parent.upper.copy()))
        elif name == "update":
            _, form, sseed, idx_sel = op
            Npts = len(self.ds.points)
            if idx_sel is None:
                idx = None
                idx_list = list(range(Npts))
            else:
                idx_list = []
                for v in idx_sel:
                    v = v % Npts
                    if v not in idx_list:
                        idx_list.append(v)
                idx = list(idx_list)
            if self.conf == "ell" and form in ("per_obj", "per_design"):
                form = "scalar"
            scale, rows = expected_scale_rows(form, sseed, len(idx_list), self.m)
            mus, covs = self.full_predict()
            if len(idx_list) == 1:
                REC.faults["single_design_update"] += 1
            try:
                self.ds.update(self.model, scale, idx)
            except Exception as e:
                self.fail("update-raised", {"exc": repr(e)[:200], "n_indices": len(idx_list), "scale_form": form})
            got = self.snapshot()
            for k, i in enumerate(idx_list):
                mu, cov, s = mus[i], covs[i], rows[k]
                REC.judged["region"] += 1
                g = got[i]
                if self.conf == "rect":
                    std = np.sqrt(np.maximum(np.diag(cov), 0))
                    L, U = mu - std * s, mu + std * s
                    tol = 1e-9 * np.abs(mu) + 1e-6 * np.abs(std * s) + 1e-12
                    cands = [(L, U)]
                    if self.intersect:
                        prev = self.expected[i]
                        strictly_overlap = bool(np.all(prev.lower < U - tol) and np.all(prev.upper > L + tol))
                        strictly_disjoint = bool(np.any(prev.lower > U + tol) or np.any(prev.upper < L - tol))
                        inter = (np.maximum(prev.lower, L), np.minimum(prev.upper, U))
                        if strictly_overlap:
                            cands = [inter]
                        elif strictly_disjoint:
                            cands = [(L, U)]
                        else:
                            cands = [inter, (L, U)]
                    ok = False
                    if np.shape(g.lower) == (self.m,) and np.shape(g.upper) == (self.m,):
                        for (cl, cu) in cands:
                            if np.all(np.abs(g.lower - cl) <= tol) and np.all(np.abs(g.upper - cu) <= tol):
                                ok = True
                                self.expected[i] = O.Rect(g.lower.copy(), g.upper.copy())
                    if not ok:
                        self.fail("region-not-prediction-scaled", {"design": i, "n_indices": len(idx_list), "scale_form": form, "got": [np.asarray(g.lower).tolist(), np.asarray(g.upper).tolist()], "want": [cands[0][0].tolist(), cands[0][1].tolist()], "intersect": self.intersect})
                    if np.any(g.lower > g.upper):
                        self.fail("lower-gt-upper", {"design": i})
                else:
                    tolc = 1e-9 * np.abs(mu) + 1e-12
                    ok = g.center.shape == (self.m,) and np.all(np.abs(g.center - mu) <= tolc) and np.allclose(g.sigma, cov, rtol=1e-6, atol=1e-9 * float(np.max(np.abs(cov)))) and abs(g.alpha - float(s[0])) <= 1e-12 * abs(float(s[0]))
                    if not ok:
                        self.fail("region-not-prediction-scaled", {"design": i, "n_indices": len(idx_list), "scale_form": form, "got_center": np.asarray(g.center).tolist(), "want_center": mu.tolist()})
                    self.expected[i] = g
            for i in range(Npts):
                if i not in idx_list:
                    REC.judged["untouched"] += 1
                    if got[i].key() != self.expected[i].key():
                        self.fail("untouched-design-changed", {"design": i, "updated": idx_list})
        else:  # pragma: no cover
            raise core.HarnessError("unknown op " + name)


def make_machine(extra):
    class M(RuleBasedStateMachine):
        def __init__(self):
            super().__init__()
            self.ex = Exec()

        @initialize(data=st.data())
        def init(self, data):
            space = data.draw(st.sampled_from(["fixed", "fixed", "fixed", "adaptive"]))
            if space == "fixed":
                conf = data.draw(st.sampled_from(["rect", "ell"]))
                mk = data.draw(st.sampled_from(["stub", "stub", "emp", "indep", "corr", "list"]))
                if conf == "ell" and mk in ("indep", "list"):
                    conf = "rect" if data.draw(st.booleans()) else "ell"
            else:
                conf = "rect"
                mk = data.draw(st.sampled_from(["stub", "corr", "indep"]))
            N = data.draw(st.integers(1, 6))
            d = data.draw(st.integers(1, 3))
            m = data.draw(st.integers(2, 3))
            self.ex.apply(["init", space, conf, N, d, m, data.draw(st.booleans()), mk, data.draw(st.integers(0, 10**6))])

        @rule(data=st.data())
        def step(self, data):
            ex = self.ex
            kind = data.draw(st.sampled_from(["update"] * 6 + ["change_model"] * 2 + (["refine"] * 2 if ex.space_kind == "adaptive" else [])))
            if kind == "update":
                form = data.draw(st.sampled_from(["scalar", "scalar", "vec1", "per_obj", "per_design1", "per_design"]))
                whole = data.draw(st.integers(0, 5)) == 0
                sel = None if whole else data.draw(st.lists(st.integers(0, 63), min_size=1, max_size=6))
                ex.apply(["update", form, data.draw(st.integers(0, 10**6)), sel])
            elif kind == "change_model":
                ex.apply(["change_model", data.draw(st.integers(0, 10**6))])
            else:
                ex.apply(["refine", data.draw(st.integers(0, 63))])

        def teardown(self):
            REC.end_example(self.ex.ops)

    return M


def replay(body) -> int:
    common.REC.known.clear()
    ex = Exec()
    try:
        for op in body["ops"]:
            ex.apply(op)
    except Violation as v:
        print("REPLAY: reproduced", v.signature, str(core.to_jsonable(v.detail))[:600])
        return 1
    if common.REC.known:
        for sig, k in common.REC.known.items():
            print("REPLAY: reproduced (listed as an open known finding)", sig, str(k["detail"])[:400])
        return 1
    print("REPLAY: operation list ran clean on this tree")
    return 0


def run_check(prop, tier, master, n_runs=None, budget_s=None):
    from .. import propchecks

    t0 = time.time()
    budget_s = core.budget(tier, budget_s)
    nproc = n_runs or (32 if tier == "quick" else 320)
    res, errors, skipped = common.run_machine_batch("sim.machines.c14", f"C14-{tier}", master, nproc, 25 if tier == "quick" else 120, 14, budget_s * 0.55)
    summ, viol = common.summarise(res)
    out_viol = common.violations_to_replays("C14", "machine-c14", viol)
    n_a = 60 if tier == "quick" else 2500
    res_a, err_a, skipped_a = propchecks.inrun_batch("C14", f"C14-{tier}-inrun", master, n_a, ["PaVeBa", "PaVeBaGP", "PaVeBaPartialGP", "Auer", "VOGP", "EpsilonPAL", "VOGP_AD"], ["C14"], opts={"fault_rates": (0.0,), "envs": ["real", "real_sim", "post_adv"]}, budget_s=max(20.0, budget_s - (time.time() - t0)))
    summ_a, viol_a, nontrivial_a = propchecks.inrun_summary("C14", res_a)
    out_viol += viol_a
    wall = time.time() - t0
    coverage = {
        "evaluations": summ["examples"] + len(res_a),
        "distinct_nontrivial": summ["distinct_op_sequences"] + len(nontrivial_a),
        "rule": "evaluations = Hypothesis machine examples (histories of design_space.update / model change / refine) + simulated runs with the in-run identity after every modeling phase. Distinct non-trivial = distinct operation-name sequences of length >= 2 + distinct run trajectories with at least one judged region",
        "samples": summ["samples"] + summ_a["samples"][:1],
        "machine": summ,
        "in_run": summ_a,
        "runs_skipped_for_time_budget": skipped + skipped_a,
        "examples_per_hour": round(summ["examples"] / max(wall, 1e-9) * 3600),
        "real_vs_stub": {"real": ["FixedPointsDesignSpace", "AdaptivelyDiscretizedDesignSpace", "Rectangular / Ellipsoidal regions", "EmpiricalMeanVarModel", "three GP wrappers (seeded hyper-parameters)"], "simulated": ["stub models with known prediction tables / functions", "operation histories (Hypothesis, seeded)"]},
    }
    vac = None
    if summ["judged"].get("region", 0) == 0 or summ["faults_fired"].get("single_design_update", 0) == 0:
        vac = "no region judged or the single-design path was never taken"
    core.finish("C14", tier, master, t0, coverage, out_viol, errors + err_a, ["expected regions are computed from an independent predict on the full design matrix (>= 2 rows)", "touching rectangles may be treated as overlapping or disjoint by iterative intersection"], vac)
