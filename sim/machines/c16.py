"""C16: the empirical model reports per-design running statistics of all samples.

Hypothesis stateful machine over EmpiricalMeanVarModel against an independent accumulator, plus
the in-run monitor of every PaVeBa / Auer simulation (thousands of interleaved batches)."""
from __future__ import annotations

import time

import numpy as np
from hypothesis import strategies as st
from hypothesis.stateful import RuleBasedStateMachine, initialize, precondition, rule

from .. import core
from . import common
from .common import Violation

REC = common.REC

VALS = st.sampled_from([0.0, 1.0, -1.0, 0.5, 0.25, -2.75, 3.0, 1e-3, 1e3, 0.1, -0.3, 7.125])
# "large baseline" histories (seeded change C16-e): every value of an example is OFFSET + a small spread, so
# that a one-pass E[y^2]-E[y]^2 variance loses the answer to cancellation while the mean stays right
SMALL = st.sampled_from([0.0, 0.1, -0.2, 0.35, 0.05, -0.15, 0.25, 0.3, -0.05])
OFFSETS = [0.0, 0.0, 0.0, 1e6, -1e6, 1e8]


def exact_mean_var(data):
    """Exact (rational) mean and population variance per objective of a list of float vectors, plus a
    forward-error allowance valid for any backward-stable algorithm (two-pass, Welford, pairwise):
    n * eps * max|y| * (std + eps * max|y|) -- the condition number of the variance times the unit round-off."""
    from fractions import Fraction

    arr = np.array(data, float)
    n, m = arr.shape
    mean, var, allow = np.zeros(m), np.zeros(m), np.zeros(m)
    eps = np.finfo(float).eps
    for o in range(m):
        fr = [Fraction(float(v)) for v in arr[:, o]]
        mu = sum(fr) / n
        va = sum((f - mu) ** 2 for f in fr) / n
        mean[o], var[o] = float(mu), float(va)
        big = float(np.max(np.abs(arr[:, o])))
        allow[o] = 8 * max(n, 4) * eps * big * (np.sqrt(var[o]) + eps * big)
    return mean, var, allow


class Exec(common.BaseExec):
    PROP = "C16"

    """Applies recorded operations to the real model and the reference; raises Violation."""


    def fail(self, cls, detail):
        self.violation(f"C16:{cls}", detail)

    def _apply(self, op):
        from vopy.models import EmpiricalMeanVarModel

        name = op[0]
        if name == "init":
            _, d_in, m, nv, n, tm, tv = op
            self.d_in, self.m, self.nv, self.n = d_in, m, nv, n
            self.model = EmpiricalMeanVarModel(d_in, m, nv, n, track_means=tm, track_variances=tv)
            self.ref = [[] for _ in range(n)]
            self.fresh = False
            self.tm, self.tv = tm, tv
        elif name == "add":
            _, idx, as_set, Y = op
            Y = np.array(Y, dtype=float).reshape(len(Y), self.m)
            indices = set(idx) if as_set else list(idx)
            if as_set and len(indices) != len(Y):
                Y = Y[: len(indices)]
            before = [np.array(s).copy() for s in self.model.design_samples]
            bad = max(indices) >= self.n
            try:
                self.model.add_sample(indices, Y)
                raised = False
            except ValueError:
                raised = True
            if bad:
                REC.judged["reject"] += 1
                REC.faults["out_of_range_index"] += 1
                if not raised:
                    self.fail("out-of-range-index-accepted", {"indices": sorted(indices), "design_count": self.n})
                after = self.model.design_samples
                if any(not np.array_equal(a, b) for a, b in zip(before, after)):
                    self.fail("rejected-add-changed-data", {"indices": sorted(indices)})
                return
            if raised:
                self.fail("valid-add-rejected", {"indices": list(indices)})
            for i, y in zip(list(indices), Y):
                self.ref[i].append(np.array(y, float))
            self.fresh = False
        elif name == "update":
            self.model.update()
            self.fresh = True
        elif name == "clear":
            self.model.clear_data()
            self.ref = [[] for _ in range(self.n)]
            self.fresh = False
        elif name == "toggle":
            _, tm, tv = op
            self.model.track_means, self.model.track_variances = tm, tv
            self.tm, self.tv = tm, tv
            self.fresh = False
        elif name == "predict":
            _, idx = op
            if not self.fresh:
                REC.faults["stale_read_skipped"] += 1
                return  # only a model that was updated after its last change is judged
            X = np.zeros((len(idx), self.d_in + 1))
            X[:, :-1] = 0.37
            X[:, -1] = idx
            mus, covs = self.model.predict(X)
            mus, covs = np.asarray(mus, float), np.asarray(covs, float)
            if mus.shape != (len(idx), self.m) or covs.shape != (len(idx), self.m, self.m):
                self.fail("predict-shape", {"mean": list(mus.shape), "cov": list(covs.shape)})
            for r, i in enumerate(idx):
                data = self.ref[i]
                ex_mean, ex_var, allow = exact_mean_var(data) if data else (np.zeros(self.m), np.zeros(self.m), np.zeros(self.m))
                want = ex_mean if self.tm else np.zeros(self.m)
                REC.judged["mean"] += 1
                if data and max(abs(float(v)) for y in data for v in y) >= 1e5:
                    REC.faults["large_baseline_history"] += 1
                if not np.allclose(mus[r], want, rtol=1e-12, atol=1e-12):
                    self.fail("running-mean-wrong", {"design": i, "n": len(data), "got": mus[r].tolist(), "want": want.tolist(), "tracked": self.tm})
                if self.tv:
                    wc = np.diag(ex_var) if len(data) > 1 else np.eye(self.m) * self.nv
                else:
                    wc = np.eye(self.m)
                tolm = 1e-10 * np.abs(wc) + 1e-12 + (np.diag(allow) if (self.tv and len(data) > 1) else 0.0)
                REC.judged["var"] += 1
                if not np.all(np.abs(covs[r] - wc) <= tolm):
                    self.fail("running-variance-wrong", {"design": i, "n": len(data), "got": covs[r].tolist(), "want": wc.tolist(), "tracked": self.tv})
        else:  # pragma: no cover
            raise core.HarnessError("unknown op " + name)


def make_machine(extra):
    class M(RuleBasedStateMachine):
        def __init__(self):
            super().__init__()
            self.ex = Exec()

        @initialize(d_in=st.integers(1, 3), m=st.integers(1, 3), nv=st.sampled_from([0.01, 1.0, 2.5]), n=st.integers(1, 5), tm=st.booleans(), tv=st.booleans())
        def init(self, d_in, m, nv, n, tm, tv):
            self.ex.apply(["init", d_in, m, nv, n, tm, tv])
            self.off = None

        @rule(data=st.data())
        def step(self, data):
            ex = self.ex
            kind = data.draw(st.sampled_from(["add"] * 5 + ["update"] * 2 + ["predict"] * 4 + ["clear", "toggle"]))
            if self.off is None:
                self.off = data.draw(st.sampled_from(OFFSETS))
            if kind == "add":
                k = data.draw(st.integers(1, 4))
                hi = ex.n - 1 if data.draw(st.integers(0, 9)) else ex.n + 1
                idx = data.draw(st.lists(st.integers(0, hi), min_size=k, max_size=k))
                as_set = data.draw(st.booleans())
                Y = data.draw(st.lists(st.lists(VALS if self.off == 0.0 else SMALL, min_size=ex.m, max_size=ex.m), min_size=k, max_size=k))
                if self.off != 0.0:
                    Y = [[self.off + v for v in row] for row in Y]
                ex.apply(["add", idx, as_set, Y])
            elif kind == "update":
                ex.apply(["update"])
            elif kind == "clear":
                ex.apply(["clear"])
            elif kind == "toggle":
                ex.apply(["toggle", data.draw(st.booleans()), data.draw(st.booleans())])
            else:
                idx = data.draw(st.lists(st.integers(0, ex.n - 1), min_size=1, max_size=5))
                if data.draw(st.booleans()):
                    ex.apply(["update"])
                ex.apply(["predict", idx])

        def teardown(self):
            REC.end_example(self.ex.ops)

    return M


def replay(body) -> int:
    common.REC.known.clear()
    ex = Exec()
    try:
        for op in body["ops"]:
            ex.apply(op)
    except Violation as v:
        print("REPLAY: reproduced", v.signature, core.to_jsonable(v.detail))
        return 1 if v.signature == body["signature"] else 1
    if common.REC.known:
        for sig, k in common.REC.known.items():
            print("REPLAY: reproduced (listed as an open known finding)", sig, str(k["detail"])[:400])
        return 1
    print("REPLAY: operation list ran clean on this tree")
    return 0


def run_check(prop, tier, master, n_runs=None, budget_s=None):
    from .. import propchecks

    t0 = time.time()
    budget_s = core.budget(tier, budget_s)
    nproc = n_runs or (32 if tier == "quick" else 320)
    res, errors, skipped = common.run_machine_batch("sim.machines.c16", f"C16-{tier}", master, nproc, 60 if tier == "quick" else 200, 30, budget_s * 0.5)
    summ, viol = common.summarise(res)
    out_viol = common.violations_to_replays("C16", "machine-c16", viol)
    n_a = 40 if tier == "quick" else 1500
    res_a, err_a, skipped_a = propchecks.inrun_batch("C16", f"C16-{tier}-inrun", master, n_a, ["PaVeBa", "Auer"], ["C16", "C07"], opts={"fault_rates": (0.0,)}, budget_s=max(20.0, budget_s - (time.time() - t0)))
    summ_a, viol_a, nontrivial_a = propchecks.inrun_summary("C16", res_a)
    out_viol += viol_a
    wall = time.time() - t0
    coverage = {
        "evaluations": summ["examples"] + len(res_a),
        "distinct_nontrivial": summ["distinct_op_sequences"] + len(nontrivial_a),
        "rule": "evaluations = Hypothesis machine examples (operation histories add/update/clear/toggle/predict on EmpiricalMeanVarModel) + simulated PaVeBa/Auer runs with the in-run accumulator monitor. Distinct non-trivial = distinct operation-name sequences of length >= 2 + distinct run trajectories with at least one judged prediction",
        "samples": summ["samples"] + summ_a["samples"][:1],
        "machine": summ,
        "in_run": summ_a,
        "runs_skipped_for_time_budget": skipped + skipped_a,
        "examples_per_hour": round(summ["examples"] / max(wall, 1e-9) * 3600),
        "real_vs_stub": {"real": ["EmpiricalMeanVarModel", "PaVeBa / Auer and their problems (in-run part)"], "simulated": ["operation histories (Hypothesis, seeded)", "noise (seeded / adversarial)"]},
    }
    vac = None
    if summ["judged"].get("mean", 0) == 0 or summ_a["decided_judgements"].get("C16", 0) == 0:
        vac = "no prediction was judged"
    core.finish("C16", tier, master, t0, coverage, out_viol, errors + err_a, ["predictions are judged only when the model was updated after its last change (stale reads are not part of the property)", "exact rational mean / population variance as reference; variance allowance = condition-number bound of a backward-stable algorithm (large-baseline histories make one-pass E[y^2]-E[y]^2 formulas visible)"], vac)
