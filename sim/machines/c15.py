"""C15: GP models return the exact posterior of exactly the data they hold.

Hypothesis stateful machine per model class against a committed-data reference model with a
closed-form (Cholesky) posterior under the model's own kernel, mean constant and noise, which are
read back from the gpytorch modules.  F13 faults: predict while stale, clear without update, zero
samples, single-point predict, repeated inputs, factory helpers with 0 / >=1 initial samples."""
from __future__ import annotations

import time

import numpy as np
from hypothesis import strategies as st
from hypothesis.stateful import RuleBasedStateMachine, initialize, rule

from .. import core
from .. import oracles as O
from ..core import keyed_rng
from . import common
from .common import Violation

REC = common.REC

POOL = np.round(np.linspace(0.03, 0.97, 9), 3)  # small pool of coordinates => repeated inputs occur


def read_hyper(model, kind):
    """The model's own kernel / mean / noise, read from the gpytorch modules."""
    g = model.model
    if kind == "indep":
        ls = g.covar_module.base_kernel.lengthscale.detach().numpy().reshape(model.output_dim, -1)
        osc = g.covar_module.outputscale.detach().numpy().reshape(-1)
        h = {"ls": ls, "os": osc}
    elif kind == "corr":
        ls = g.covar_module.data_covar_module.lengthscale.detach().numpy().reshape(-1)
        F = g.covar_module.task_covar_module.covar_factor.detach().numpy()
        var = g.covar_module.task_covar_module.var.detach().numpy().reshape(-1)
        h = {"ls": ls, "B": F @ F.T + np.diag(var), "task_var": var}
    else:
        h = {"ls": [], "os": [], "const": []}
        for sub in g.models:
            h["ls"].append(sub.covar_module.base_kernel.lengthscale.detach().numpy().reshape(-1))
            h["os"].append(float(sub.covar_module.outputscale.detach().numpy()))
            h["const"].append(float(sub.mean_module.constant.detach().numpy()))
    if kind == "list":
        h["noise"] = float(model.likelihoods[0].noise.detach().numpy().reshape(-1)[0])
    else:
        lk = model.likelihood
        if getattr(lk, "has_global_noise", True) and not getattr(lk, "has_task_noise", False):
            h["noise"] = np.full(model.output_dim, float(lk.noise.detach().numpy().reshape(-1)[0]))
        else:
            Sig = lk.task_noise_covar.detach().numpy()
            h["noise"] = np.diag(Sig).copy()
            h["noise_full"] = Sig
    return h


def ref_predict(kind, h, data, Xs, d, m):
    """Closed-form posterior mean (N, m) and covariance (N, m, m) at test points Xs."""
    Xs = np.asarray(Xs, float).reshape(-1, d)
    N = len(Xs)
    mu = np.zeros((N, m))
    cov = np.zeros((N, m, m))
    if kind == "indep":
        X, Y = data
        for o in range(m):
            Kss = O.rbf_ard(Xs, Xs, h["ls"][o], h["os"][o])
            if len(X):
                Kxx = O.rbf_ard(X, X, h["ls"][o], h["os"][o])
                Ksx = O.rbf_ard(Xs, X, h["ls"][o], h["os"][o])
                mo, co = O.gp_posterior(Kxx, Ksx, Kss, Y[:, o], np.eye(len(X)) * h["noise"][o], np.zeros(len(X)), np.zeros(N))
            else:
                mo, co = np.zeros(N), Kss
            mu[:, o] = mo
            cov[:, o, o] = np.diag(co)
        return mu, cov
    if kind == "list":
        for o in range(m):
            X, y = data[o]
            ls, osc, c = h["ls"][o], h["os"][o], h["const"][o]
            Kss = O.rbf_ard(Xs, Xs, ls, osc)
            if len(X):
                Kxx = O.rbf_ard(X, X, ls, osc)
                Ksx = O.rbf_ard(Xs, X, ls, osc)
                mo, co = O.gp_posterior(Kxx, Ksx, Kss, y, np.eye(len(X)) * h["noise"], np.full(len(X), c), np.full(N, c))
            else:
                mo, co = np.full(N, c), Kss
            mu[:, o] = mo
            cov[:, o, o] = np.diag(co)
        return mu, cov
    # correlated multitask: K((x,a),(x',b)) = B_ab k(x,x'), point-major interleaving n*m + task
    X, Y = data
    n = len(X)
    B = h["B"]
    if n == 0:
        raise ValueError("correlated model needs at least one sample")
    kxx = O.rbf_ard(X, X, h["ls"], 1.0)
    Kxx = np.kron(kxx, B)
    Sig = h.get("noise_full", np.diag(h["noise"]))
    Nz = np.kron(np.eye(n), Sig)
    y = Y.reshape(-1)
    A = Kxx + Nz
    L = np.linalg.cholesky((A + A.T) / 2)
    a = np.linalg.solve(L.T, np.linalg.solve(L, y))
    for r in range(N):
        ksx = O.rbf_ard(Xs[r : r + 1], X, h["ls"], 1.0)  # (1, n)
        Ksx = np.kron(ksx, B)  # (m, n*m)
        mu[r] = Ksx @ a
        V = np.linalg.solve(L, Ksx.T)
        cov[r] = B * 1.0 - V.T @ V
    return mu, cov


class Exec(common.BaseExec):
    PROP = "C15"


    def fail(self, cls, detail):
        parts = cls.split(":", 1)
        self.violation(f"C15:{parts[0]}:{self.kind}" + (":" + parts[1] if len(parts) > 1 else ""), detail)

    # reference state -----------------------------------------------------------------------
    def empty(self):
        if self.kind == "list":
            return [(np.zeros((0, self.d)), np.zeros(0)) for _ in range(self.m)]
        return (np.zeros((0, self.d)), np.zeros((0, self.m)))

    def held_from_model(self):
        mod = self.model
        if self.kind == "list":
            return [(mod.train_inputs[o].numpy().copy(), mod.train_targets[o].numpy().copy()) for o in range(self.m)]
        return (mod.train_inputs.numpy().copy(), mod.train_targets.numpy().copy())

    def n_committed(self):
        if self.kind == "list":
            return sum(len(x) for x, _ in self.committed)
        return len(self.committed[0])

    # -----------------------------------------------------------------------------------------
    def build(self, kind, d, m, noise):
        from vopy.models import CorrelatedExactGPyTorchModel, GPyTorchModelListExactModel, IndependentExactGPyTorchModel

        if kind == "indep":
            return IndependentExactGPyTorchModel(d, m, noise)
        if kind == "corr":
            return CorrelatedExactGPyTorchModel(d, m, noise)
        return GPyTorchModelListExactModel(d, m, noise)

    def _apply(self, op):
        from .. import env as E

        name = op[0]
        if name == "init":
            _, kind, d, m, noise, seed = op
            self.kind, self.d, self.m = kind, d, m
            nz = float(noise) if not isinstance(noise, list) else np.diag(np.array(noise, float))
            self.matrix_noise = isinstance(noise, list)
            self.model = self.build(kind, d, m, nz)
            self.held = self.empty()
            self.committed = None  # nothing committed until the first update()
            self.hyper = E.gen_hyper(keyed_rng(seed, 71), m=max(m, 3), d=max(d, 3))
            self.hyper_applied = False
            self.probe = np.array([[0.21] * d, [0.77] * d])
            self.last_var = None
        elif name == "add":
            X, Y, objs = op[1], op[2], op[3]
            as_int = bool(op[4]) if len(op) > 4 else False
            X = np.array(X, float).reshape(-1, self.d)
            if self.kind == "list":
                y = np.array(Y, float).reshape(-1)
                ob = [int(o) % self.m for o in objs]
                if len(set(ob)) == 1 and as_int:
                    self.model.add_sample(X, y, ob[0])  # int form
                else:
                    self.model.add_sample(X, y, ob)
                for x, v, o in zip(X, y, ob):
                    hx, hy = self.held[o]
                    self.held[o] = (np.vstack([hx, x[None, :]]), np.append(hy, v))
            else:
                Y = np.array(Y, float).reshape(-1, self.m)
                self.model.add_sample(X, Y)
                self.held = (np.vstack([self.held[0], X]), np.vstack([self.held[1], Y]))
        elif name == "update":
            if self.kind == "corr" and len(self.held[0]) == 0:
                return  # the correlated model needs at least one sample (excluded by the property)
            grew = self.committed is not None and self._superset(self.committed, self.held)
            self.model.update()
            if not self.hyper_applied:
                E.apply_hyper(self.model.model, self.hyper)
                self.hyper_applied = True
            self.committed = self._copy(self.held)
            if not grew:
                self.last_var = None
            if not (self.kind == "corr" and len(self.committed[0]) == 0) and not (self.matrix_noise and self.n_committed() == 0):
                try:
                    _, pc = self.model.predict(self.probe)
                    v = np.diagonal(np.asarray(pc, float), axis1=-2, axis2=-1).copy()
                except Exception:
                    v = None
                if v is not None and self.last_var is not None and v.shape == self.last_var.shape:
                    REC.judged["variance-monotone"] += 1
                    if np.any(v > self.last_var + 1e-8 * max(1.0, float(np.max(self.last_var)))):
                        self.fail("variance-grew-with-more-data", {"before": self.last_var.tolist(), "after": v.tolist()})
                self.last_var = v
        elif name == "clear":
            self.model.clear_data()
            self.held = self.empty()
            REC.faults["clear"] += 1
        elif name == "helper":
            self.do_helper(op)
        elif name == "predict":
            self.do_predict(np.array(op[1], float).reshape(-1, self.d))
        elif name == "report":
            self.do_report()
        else:  # pragma: no cover
            raise core.HarnessError("unknown op " + name)

    def _copy(self, held):
        if self.kind == "list":
            return [(x.copy(), y.copy()) for x, y in held]
        return (held[0].copy(), held[1].copy())

    def _superset(self, old, new):
        if self.kind == "list":
            return all(len(n[0]) >= len(o[0]) and np.array_equal(n[0][: len(o[0])], o[0]) and np.array_equal(n[1][: len(o[1])], o[1]) for o, n in zip(old, new))
        return len(new[0]) >= len(old[0]) and np.array_equal(new[0][: len(old[0])], old[0]) and np.array_equal(new[1][: len(old[1])], old[1])

    # -----------------------------------------------------------------------------------------
    def do_helper(self, op):
        """Train-and-freeze factory helpers (fit stubbed with seeded hyper-parameters unless
        op says real): the returned model must be up to date with the data it holds."""
        from vopy.maximization_problem import ProblemFromDataset
        from vopy.models import CorrelatedExactGPyTorchModel, IndependentExactGPyTorchModel, get_gpytorch_model_w_known_hyperparams, get_gpytorch_modellist_w_known_hyperparams

        from .. import env as E

        _, cnt, seed, real_fit = op
        rng = keyed_rng(seed, 73)
        n = 6
        X = np.round(rng.uniform(0, 1, size=(n, self.d)), 3)
        Y = rng.normal(size=(n, self.m))
        name = "C15DS_%d" % (seed % 10**6)
        E.register_dataset(name, X, Y)
        ds = E.m_ds.get_dataset_instance(name)
        E.unregister_dataset(name)
        problem = ProblemFromDataset(ds, 0.05)
        E.install_seams()
        ctx = E.RunContext(core.EventLog())
        ctx.hyper = None if real_fit else self.hyper
        E.set_ctx(ctx)
        np.random.seed(seed % (2**31))
        try:
            if self.kind == "list":
                mod = get_gpytorch_modellist_w_known_hyperparams(problem, 0.05, cnt, X=X, Y=Y)
            else:
                cls = IndependentExactGPyTorchModel if self.kind == "indep" else CorrelatedExactGPyTorchModel
                if self.kind == "corr" and cnt == 0:
                    cnt = 1
                mod = get_gpytorch_model_w_known_hyperparams(cls, problem, 0.05, cnt, X=X, Y=Y)
        finally:
            E.set_ctx(None)
        REC.faults["helper_cnt_%d" % cnt] += 1
        if real_fit:
            REC.faults["helper_real_fit"] += 1
            # the property quantifies over hyper-parameters in a well-conditioned range; a real
            # L-BFGS fit on six random points can leave it (tiny lengthscales, huge output scales),
            # where gpytorch's distance computation itself loses 1e-6..1e-4: stop judging then
            hh = read_hyper(mod, self.kind)
            ls = np.concatenate([np.ravel(x) for x in (hh["ls"] if isinstance(hh["ls"], list) else [hh["ls"]])])
            osc = np.ravel(hh["os"]) if "os" in hh else np.diag(hh["B"])
            if np.min(ls) < 0.1 or np.max(ls) > 10.0 or np.min(osc) < 1e-2 or np.max(osc) > 1e2:
                REC.faults["real_fit_left_well_conditioned_range"] += 1
                self.model = mod
                self.dead = True
                return
        self.model = mod
        self.hyper_applied = True
        self.held = self.held_from_model()
        self.committed = self._copy(self.held)  # "models returned by the helpers are up to date"
        self.last_var = None
        self.from_helper = True

    def do_predict(self, Xs):
        if self.committed is None:
            return
        if self.kind == "corr" and len(self.committed[0]) == 0:
            return
        N = len(Xs)
        if N == 1:
            REC.faults["single_point_predict"] += 1
        if self.n_committed() == 0:
            REC.faults["zero_samples"] += 1
        stale = not self._same(self.committed, self.held)
        if stale:
            REC.faults["stale_read"] += 1
        try:
            mu, cov = self.model.predict(Xs)
        except Exception as e:
            tag = ("matrix-noise" if self.matrix_noise else "scalar-noise") + (":zero-samples" if self.n_committed() == 0 else "")
            self.fail("predict-raised:" + tag, {"exc": repr(e)[:200], "N": N, "n_train": self.n_committed()})
        mu, cov = np.asarray(mu, float), np.asarray(cov, float)
        REC.judged["shape"] += 1
        if mu.shape != (N, self.m) or cov.shape != (N, self.m, self.m):
            self.fail("predict-shape", {"mean": list(mu.shape), "cov": list(cov.shape), "N": N, "m": self.m})
        h = read_hyper(self.model, self.kind)
        rmu, rcov = ref_predict(self.kind, h, self.committed, Xs, self.d, self.m)
        ysc = 1.0
        if self.kind == "list":
            allY = np.concatenate([y for _, y in self.committed]) if self.n_committed() else np.zeros(1)
            ysc = max(1.0, float(np.max(np.abs(allY))), max(abs(c) for c in h["const"]))
            vsc = max(h["os"])
        elif self.kind == "indep":
            ysc = max(1.0, float(np.max(np.abs(self.committed[1]))) if len(self.committed[1]) else 1.0)
            vsc = float(np.max(h["os"]))
        else:
            ysc = max(1.0, float(np.max(np.abs(self.committed[1]))))
            vsc = float(np.max(np.diag(h["B"])))
        REC.judged["posterior"] += 1
        if np.max(np.abs(mu - rmu)) > 1e-6 * ysc:
            self.fail("posterior-mean-wrong", {"max_abs_err": float(np.max(np.abs(mu - rmu))), "N": N, "n_train": self.n_committed(), "stale": stale, "got": mu.tolist(), "want": rmu.tolist()})
        if np.max(np.abs(cov - rcov)) > 1e-6 * vsc:
            self.fail("posterior-covariance-wrong", {"max_abs_err": float(np.max(np.abs(cov - rcov))), "N": N, "n_train": self.n_committed(), "stale": stale})
        dg = np.diagonal(cov, axis1=-2, axis2=-1)
        if np.min(dg) < -1e-9 * vsc:
            self.fail("negative-variance", {"min": float(np.min(dg))})

    def _same(self, a, b):
        if self.kind == "list":
            return all(np.array_equal(x[0], y[0]) and np.array_equal(x[1], y[1]) for x, y in zip(a, b))
        return np.array_equal(a[0], b[0]) and np.array_equal(a[1], b[1])

    def do_report(self):
        if self.committed is None or not self.hyper_applied:
            return
        h = read_hyper(self.model, self.kind)
        REC.judged["report"] += 1
        try:
            ls, var = self.model.get_lengthscale_and_var()
        except Exception as e:
            self.fail("hyperparameter-report-raised", {"exc": repr(e)[:200], "in_dim": self.d, "out_dim": self.m})
        ls, var = np.asarray(ls, float), np.asarray(var, float)
        if var.reshape(-1).shape != (self.m,):
            self.fail("variance-report-not-one-per-objective", {"shape": list(var.shape), "m": self.m, "in_dim": self.d})
        if self.kind == "indep":
            want_ls, want_var = h["ls"], h["os"]
            ok = ls.reshape(self.m, -1).shape == want_ls.shape and np.allclose(ls.reshape(self.m, -1), want_ls) and np.allclose(var.reshape(-1), want_var)
        elif self.kind == "corr":
            ok = np.allclose(ls.reshape(-1), h["ls"]) and np.allclose(var.reshape(-1), h["task_var"])
        else:
            ok = ls.shape == (self.m, self.d) and np.allclose(ls, np.array(h["ls"])) and np.allclose(var.reshape(-1), np.array(h["os"]))
        if not ok:
            self.fail("hyperparameter-report-disagrees-with-kernel", {"ls": ls.tolist(), "var": var.tolist()})
        # evaluate_kernel against the closed-form Gram matrix
        Xk = self.probe
        if self.kind == "indep":
            K = self.model.evaluate_kernel(Xk)
            want = np.stack([O.rbf_ard(Xk, Xk, h["ls"][o], h["os"][o]) for o in range(self.m)])
            if K.shape != want.shape or not np.allclose(K, want, rtol=1e-9, atol=1e-12):
                self.fail("evaluate-kernel-disagrees", {"shape": list(K.shape)})
        elif self.kind == "corr":
            K = self.model.evaluate_kernel(Xk)
            want = np.kron(O.rbf_ard(Xk, Xk, h["ls"], 1.0), h["B"])
            if K.shape != want.shape or not np.allclose(K, want, rtol=1e-9, atol=1e-12):
                self.fail("evaluate-kernel-disagrees", {"shape": list(K.shape)})


def make_machine(extra):
    kinds = extra.get("kinds") or ["indep", "corr", "list"]

    class M(RuleBasedStateMachine):
        def __init__(self):
            super().__init__()
            self.ex = Exec()

        @initialize(data=st.data())
        def init(self, data):
            kind = data.draw(st.sampled_from(kinds))
            d = data.draw(st.integers(1, 3))
            m = data.draw(st.integers(2, 3))
            noise = data.draw(st.sampled_from([0.01, 0.05, 0.3]))
            if kind != "list" and data.draw(st.integers(0, 3)) == 0:
                noise = [float(noise) * (1 + 0.5 * o) for o in range(m)]
            self.ex.apply(["init", kind, d, m, noise, data.draw(st.integers(0, 10**6))])

        def draw_X(self, data, k):
            pool = [float(v) for v in POOL]
            return data.draw(st.lists(st.lists(st.sampled_from(pool), min_size=self.ex.d, max_size=self.ex.d), min_size=k, max_size=k))

        @rule(data=st.data())
        def step(self, data):
            ex = self.ex
            kind = data.draw(st.sampled_from(["add"] * 5 + ["update"] * 3 + ["predict"] * 5 + ["clear", "report", "report", "helper"]))
            vals = st.sampled_from([0.0, 0.5, -0.5, 1.25, -2.0, 3.0, 0.1])
            if kind == "add":
                k = data.draw(st.integers(1, 5))
                X = self.draw_X(data, k)
                if ex.kind == "list":
                    Y = data.draw(st.lists(vals, min_size=k, max_size=k))
                    same = data.draw(st.booleans())
                    o0 = data.draw(st.integers(0, ex.m - 1))
                    objs = [o0] * k if same else data.draw(st.lists(st.integers(0, ex.m - 1), min_size=k, max_size=k))
                    ex.apply(["add", X, Y, objs, bool(same)])
                else:
                    Y = data.draw(st.lists(st.lists(vals, min_size=ex.m, max_size=ex.m), min_size=k, max_size=k))
                    ex.apply(["add", X, Y, None, False])
            elif kind == "update":
                ex.apply(["update"])
            elif kind == "clear":
                ex.apply(["clear"])
                if data.draw(st.booleans()):
                    ex.apply(["update"])
            elif kind == "report":
                ex.apply(["report"])
            elif kind == "helper":
                ex.apply(["helper", data.draw(st.sampled_from([0, 0, 1, 3])), data.draw(st.integers(0, 10**6)), bool(extra.get("real_fit")) and data.draw(st.integers(0, 4)) == 0])
            else:
                N = data.draw(st.sampled_from([1, 1, 2, 3, 5]))
                ex.apply(["predict", self.draw_X(data, N)])

        def teardown(self):
            REC.end_example(self.ex.ops)

    return M


def replay(body) -> int:
    common.REC.known.clear()
    ex = Exec()
    try:
        for op in body["ops"]:
            ex.apply(op)
    except Violation as v:
        print("REPLAY: reproduced", v.signature, str(core.to_jsonable(v.detail))[:600])
        return 1
    if common.REC.known:
        for sig, k in common.REC.known.items():
            print("REPLAY: reproduced (listed as an open known finding)", sig, str(k["detail"])[:400])
        return 1
    print("REPLAY: operation list ran clean on this tree")
    return 0


def run_check(prop, tier, master, n_runs=None, budget_s=None):
    t0 = time.time()
    budget_s = core.budget(tier, budget_s)
    nproc = n_runs or (48 if tier == "quick" else 480)
    res, errors, skipped = common.run_machine_batch("sim.machines.c15", f"C15-{tier}", master, nproc, 70 if tier == "quick" else 250, 20, budget_s * 0.6, extra={"real_fit": tier == "thorough"})
    summ, viol = common.summarise(res)
    out_viol = common.violations_to_replays("C15", "machine-c15", viol)
    from .. import propchecks

    n_a = 50 if tier == "quick" else 2000
    res_a, err_a, skipped_a = propchecks.inrun_batch("C15", f"C15-{tier}-inrun", master, n_a, ["PaVeBaGP", "PaVeBaPartialGP", "VOGP", "EpsilonPAL", "DecoupledGP", "VOGP_AD"], ["C15", "C07"], opts={"fault_rates": (0.0,), "envs": ["real"]}, budget_s=max(30.0, budget_s - (time.time() - t0)))
    summ_a, viol_a, nontrivial_a = propchecks.inrun_summary("C15", res_a)
    out_viol += viol_a
    errors = errors + err_a
    skipped += skipped_a
    wall = time.time() - t0
    coverage = {
        "evaluations": summ["examples"] + len(res_a),
        "distinct_nontrivial": summ["distinct_op_sequences"] + len(nontrivial_a),
        "rule": "evaluations = Hypothesis machine examples (add_sample / update / clear_data / predict / hyper-parameter report / factory-helper histories on the three GP model classes) + simulated runs of the GP algorithms with the real models (closed-form posterior of the reported training data after every evaluating phase). Distinct non-trivial = distinct operation-name sequences of length >= 2 + distinct run trajectories with a judged posterior",
        "samples": summ["samples"] + summ_a["samples"][:1],
        "machine": summ,
        "in_run": summ_a,
        "runs_skipped_for_time_budget": skipped,
        "examples_per_hour": round(summ["examples"] / max(wall, 1e-9) * 3600),
        "real_vs_stub": {"real": ["IndependentExactGPyTorchModel", "CorrelatedExactGPyTorchModel", "GPyTorchModelListExactModel", "factory helpers", "gpytorch exact inference"], "simulated": ["hyper-parameter fitting (seeded values; real L-BFGS fit in a fraction of helper operations of the thorough tier)", "operation histories (Hypothesis, seeded)"]},
    }
    vac = None
    if summ["judged"].get("posterior", 0) < 50:
        vac = "fewer than 50 posterior comparisons"
    core.finish("C15", tier, master, t0, coverage, out_viol, errors, ["closed-form Cholesky posterior under hyper-parameters read back from the gpytorch modules", "well-conditioned hyper-parameter range, noise >= 0.01, <= ~40 training points", "matrix noise only diagonal"], vac)
