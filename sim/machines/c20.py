"""C20: problems return the nearest design's value plus configured noise; inputs never modified.

The randomness seam (np.random.normal as read by vopy.utils.utils) is owned by the simulator:
  * injected draws (F14): with known Z the noisy result must equal f(nearest) + Z L^T exactly,
    L the lower Cholesky factor of the configured covariance (the convention both problem
    classes use: noise_cholesky = np.linalg.cholesky(cov));
  * seeded real draws: sample mean / covariance of repeated evaluations against the configured
    covariance with >= 8-sigma acceptance regions (sound for every seed).
Decoupled evaluation is compared with the matching components of the *same* underlying evaluation
(recording proxy on the inner problem); the caller's array is compared bit-for-bit.
The data-scaling sentence of C20 has no seam: it is asserted once per run as a static sanity step."""
from __future__ import annotations

import time

import numpy as np
from hypothesis import strategies as st
from hypothesis.stateful import RuleBasedStateMachine, initialize, rule

from .. import core
from ..core import keyed_rng
from . import common

REC = common.REC


class InjectedNormal:
    """Replacement for np.random.normal inside vopy.utils.utils for the duration of a call."""

    def __init__(self, seed):
        self.rng = keyed_rng(seed, 83)
        self.draws = []

    def __call__(self, loc=0.0, scale=1.0, size=None):
        mode = len(self.draws) % 3
        z = self.rng.normal(size=size)
        if mode == 1:
            z = np.round(z * 4) / 4  # dyadic draws: the identity is exact in floating point
        self.draws.append(np.array(z, copy=True))
        return z


class InnerProxy:
    def __init__(self, inner):
        self.inner = inner
        self.last = None

    def __getattr__(self, n):
        return getattr(self.inner, n)

    def evaluate(self, x, *a, **k):
        y = self.inner.evaluate(x, *a, **k)
        self.last = np.array(y).copy()
        return y


def branin_currin_reference(x):
    """Independent re-statement of the (negated, normalised) Branin-Currin pair on [0,1]^2."""
    x = np.array(x, dtype=float).reshape(-1, 2)
    a, b = 15 * x[:, 0] - 5, 15 * x[:, 1]
    branin = (b - 5.1 / (4 * np.pi**2) * a**2 + 5 / np.pi * a - 6) ** 2 + 10 * (1 - 1 / (8 * np.pi)) * np.cos(a) + 10
    x0 = x[:, 0]
    x1 = np.where(x[:, 1] == 0, 1e-9, x[:, 1])
    currin = (1 - np.exp(-1 / (2 * x1))) * (2300 * x0**3 + 1900 * x0**2 + 2092 * x0 + 60) / (100 * x0**3 + 500 * x0**2 + 4 * x0 + 20)
    return np.stack([-(branin - 54.3669) / 51.3086, -(currin - 7.5926) / 2.6496], axis=1)


class Exec(common.BaseExec):
    PROP = "C20"

    def fail(self, cls, detail):
        self.violation(f"C20:{cls}:{self.pkind}", detail)

    def nearest(self, x):
        X = self.X
        return int(np.argmin(((X - np.asarray(x, float)[None, :]) ** 2).sum(-1)))

    def _apply(self, op):
        import vopy.utils.utils as U
        from vopy.maximization_problem import BraninCurrin, DecoupledEvaluationProblem, ProblemFromDataset

        from .. import env as E

        name = op[0]
        if name == "init":
            _, pkind, K, d, m, noise_var, corr, seed = op
            self.pkind, self.m, self.d = pkind, m, d
            rng = keyed_rng(seed, 81)
            self.inner_proxy = None
            if pkind in ("dataset", "decoupled"):
                X = np.round(rng.uniform(0, 1, size=(K, d)), 4)
                Y = rng.normal(size=(K, m))
                nm = "C20DS_%d" % (seed % 10**6)
                E.register_dataset(nm, X, Y)
                ds = E.m_ds.get_dataset_instance(nm)
                E.unregister_dataset(nm)
                self.X, self.F = ds.in_data.copy(), ds.out_data.copy()
                base = ProblemFromDataset(ds, noise_var)
                self.truth = lambda x: self.F[[self.nearest(r) for r in x]]
            elif pkind == "bundled":
                ds = E.m_ds.get_dataset_instance("Test")
                self.X, self.F = ds.in_data.copy(), ds.out_data.copy()
                self.d, self.m = ds.in_dim, ds.out_dim
                base = ProblemFromDataset(ds, noise_var)
                self.truth = lambda x: self.F[[self.nearest(r) for r in x]]
            elif pkind == "branin":
                base = BraninCurrin(noise_var)
                self.d, self.m = 2, 2
                self.X = None
                self.truth = branin_currin_reference
            else:
                base = E.SimContinuousProblem(d, m, 3, noise_var, seed)
                self.X = None
                self.truth = lambda x: base.evaluate_true(np.array(x, float).copy())
            if corr:
                # a correlated covariance installed through the problem's own attribute, built the
                # way the classes build it: lower Cholesky factor of the covariance
                A = rng.normal(size=(self.m, self.m))
                S = A @ A.T + 0.2 * np.eye(self.m)
                S = S * noise_var * np.array([1.0, 9.0, 4.0][: self.m])[:, None] ** 0.5 * np.array([1.0, 9.0, 4.0][: self.m])[None, :] ** 0.5
                base.noise_cholesky = np.linalg.cholesky(S)
                self.cov = S
                REC.faults["correlated_noise_factor"] += 1
            else:
                self.cov = np.eye(self.m) * noise_var
            self.L = np.linalg.cholesky(self.cov) if noise_var > 0 else np.zeros((self.m, self.m))
            self.base = base
            if pkind == "decoupled":
                self.inner_proxy = InnerProxy(base)
                self.problem = DecoupledEvaluationProblem(self.inner_proxy)
            else:
                self.problem = base
        elif name == "eval":
            _, xs, single, noisy, inject_seed, idx = op[:6]
            reuse = bool(op[6]) if len(op) > 6 else False  # older replay files have no 7th field
            x = np.array(xs, dtype=float).reshape(-1, self.d)
            if self.X is not None:
                # on-grid rows are given as negative-coded indices
                pass
            arg = x[0].copy() if single else x.copy()
            # caller-buffer history (seeded change C20-e): a caller may refill the array object it passed
            # last time and pass it again; the answer must depend on its contents, not on its identity
            if not hasattr(self, "bufs") or self.bufs_owner is not self.problem:
                self.bufs, self.bufs_owner = {}, self.problem
            if reuse and arg.shape in self.bufs:
                buf = self.bufs[arg.shape]
                if not np.array_equal(buf, arg):
                    REC.faults["caller_buffer_refilled_in_place"] += 1
                buf[...] = arg
                arg = buf
            self.bufs[arg.shape] = arg
            before = arg.copy()
            kw = {} if noisy else {"noisy": False}
            inj = InjectedNormal(inject_seed)
            orig = U.np.random.normal
            U.np.random.normal = inj
            try:
                if self.pkind == "decoupled":
                    y = self.problem.evaluate(arg, idx, **kw)
                else:
                    y = self.problem.evaluate(arg, **kw)
            except Exception as e:
                U.np.random.normal = orig
                self.fail("evaluate-raised", {"exc": repr(e)[:200], "single": single, "noisy": noisy})
            finally:
                U.np.random.normal = orig
            REC.judged["immutable"] += 1
            if not (np.array_equal(arg, before) and arg.dtype == before.dtype):
                self.fail("input-array-modified", {"before": before.tolist(), "after": np.asarray(arg).tolist()})
            rows = x[:1] if single else x
            f = np.asarray(self.truth(rows), float)
            if noisy:
                REC.faults["F14_injected_draws"] += 1
                total = sum(int(np.size(z)) for z in inj.draws)
                if total != len(rows) * self.m:
                    # the code drew its noise in some other arrangement: the identity cannot be
                    # stated; the sampling law of batch rows is judged by the "law" operation instead
                    REC.faults["identity_skipped_unexpected_draw_count"] += 1
                    return
                Z = np.concatenate([np.asarray(z, float).reshape(-1) for z in inj.draws]).reshape(len(rows), self.m)
                full = f + Z @ self.L.T
            else:
                if inj.draws:
                    self.fail("noiseless-evaluation-drew-noise", {})
                full = f
            y = np.asarray(y, float)
            if self.pkind == "decoupled":
                inner = self.inner_proxy.last
                REC.judged["decoupled"] += 1
                if idx is None:
                    want_from_inner = inner
                    want = full
                elif isinstance(idx, int):
                    want_from_inner = inner[:, idx]
                    want = full[:, idx]
                else:
                    ii = np.array(idx, int)
                    want_from_inner = inner[np.arange(len(ii)), ii]
                    want = full[np.arange(len(ii)), ii]
                if y.shape != np.shape(want_from_inner) or not np.array_equal(y, want_from_inner):
                    self.fail("decoupled-not-components-of-same-evaluation", {"idx": idx, "got": y.tolist(), "inner": np.asarray(inner).tolist()})
            else:
                want = full
            REC.judged["value"] += 1
            tol = 1e-12 * (np.abs(want) + 1.0)
            if y.shape != np.shape(want):
                self.fail("result-shape", {"got": list(y.shape), "want": list(np.shape(want)), "single": single})
            if np.any(np.abs(y - want) > tol):
                cls = "noisy-value-not-f-plus-Z-Lt" if noisy else "noiseless-value-not-nearest-design"
                self.fail(cls, {"got": y.tolist(), "want": np.asarray(want).tolist(), "single": single, "idx": idx})
        elif name == "law":
            # seeded real draws: moments of repeated noisy evaluations
            _, xs, seed, n = op
            x = np.array(xs, float).reshape(1, self.d)
            if self.pkind == "decoupled":
                return
            np.random.seed(seed % (2**31))
            reps = np.repeat(x, n, axis=0)
            y = np.asarray(self.problem.evaluate(reps), float)
            f = np.asarray(self.truth(x), float)[0]
            r = y - f[None, :]
            REC.judged["law"] += 1
            mean = r.mean(axis=0)
            S = (r.T @ r) / n
            sd = np.sqrt(np.diag(self.cov))
            if np.any(np.abs(mean) > 8 * sd / np.sqrt(n) + 1e-300):
                self.fail("noise-mean-not-zero", {"mean": mean.tolist(), "sd": sd.tolist(), "n": n})
            C = self.cov
            tolm = 8 * np.sqrt((np.outer(np.diag(C), np.diag(C)) + C**2) / n) + 1e-300
            if np.any(np.abs(S - C) > tolm):
                self.fail("noise-covariance-not-configured", {"sample_cov": S.tolist(), "configured": C.tolist(), "n": n})
        else:  # pragma: no cover
            raise core.HarnessError("unknown op " + name)


def make_machine(extra):
    class M(RuleBasedStateMachine):
        def __init__(self):
            super().__init__()
            self.ex = Exec()

        @initialize(data=st.data())
        def init(self, data):
            pkind = data.draw(st.sampled_from(["dataset", "dataset", "decoupled", "decoupled", "bundled", "branin", "continuous"]))
            K = data.draw(st.integers(2, 7))
            d = data.draw(st.integers(1, 3))
            m = data.draw(st.integers(2, 3))
            nv = data.draw(st.sampled_from([1e-4, 0.01, 1.0, 4.0]))
            corr = data.draw(st.integers(0, 2)) == 0
            self.ex.apply(["init", pkind, K, d, m, nv, corr, data.draw(st.integers(0, 10**6))])

        def draw_points(self, data, k):
            ex = self.ex
            coords = st.sampled_from([0.0, 0.0, 1.0, 0.5, 0.25, 0.123, 0.77, 0.9991])
            pts = []
            for _ in range(k):
                if ex.X is not None and data.draw(st.booleans()):
                    i = data.draw(st.integers(0, len(ex.X) - 1))
                    pts.append([float(v) for v in ex.X[i]])
                else:
                    pts.append(data.draw(st.lists(coords, min_size=ex.d, max_size=ex.d)))
            return pts

        @rule(data=st.data())
        def step(self, data):
            ex = self.ex
            kind = data.draw(st.sampled_from(["eval"] * 8 + ["law"]))
            if kind == "eval":
                single = data.draw(st.integers(0, 3)) == 0
                k = 1 if single else data.draw(st.integers(1, 4))
                pts = self.draw_points(data, k)
                noisy = data.draw(st.integers(0, 3)) != 0
                idx = None
                if ex.pkind == "decoupled":
                    form = data.draw(st.sampled_from(["none", "int", "list", "list"]))
                    if form == "int":
                        idx = data.draw(st.integers(0, ex.m - 1))
                    elif form == "list":
                        idx = data.draw(st.lists(st.integers(0, ex.m - 1), min_size=k, max_size=k))
                    if single and form == "list":
                        single = False
                ex.apply(["eval", pts, single, noisy, data.draw(st.integers(0, 10**6)), idx, data.draw(st.booleans())])
            else:
                ex.apply(["law", self.draw_points(data, 1)[0], data.draw(st.integers(0, 10**6)), 4000])

        def teardown(self):
            REC.end_example(self.ex.ops)

    return M


def static_sanity():
    """The scaling sentence of C20: no seam, asserted once (not simulation)."""
    from vopy.datasets import get_dataset_instance
    from vopy.utils import normalize, unnormalize

    out = {}
    for nm, (din, dout, n) in {"Test": (4, 2, 32), "SNW": (3, 2, 206), "DiskBrake": (4, 2, 128), "VehicleSafety": (5, 3, 500)}.items():
        ds = get_dataset_instance(nm)
        ok = (
            ds.in_data.shape == (n, din)
            and ds.out_data.shape == (n, dout)
            and ds.in_dim == din
            and ds.out_dim == dout
            and float(ds.in_data.min()) >= -1e-12
            and float(ds.in_data.max()) <= 1 + 1e-12
            and np.allclose(ds.in_data.min(axis=0), 0)
            and np.allclose(ds.in_data.max(axis=0), 1)
            and np.allclose(ds.out_data.mean(axis=0), 0, atol=1e-9)
            and np.allclose(ds.out_data.std(axis=0), 1, atol=1e-9)
        )
        out[nm] = bool(ok)
    rng = np.random.default_rng(0)
    data = rng.normal(size=(7, 3))
    bounds = [(-1.0, 3.0), (0.0, 2.0), (5.0, 5.5)]
    out["normalize_unnormalize_inverse"] = bool(np.allclose(unnormalize(normalize(data, bounds), bounds), data) and np.allclose(normalize(unnormalize(data, bounds), bounds), data))
    return out


def replay(body) -> int:
    common.REC.known.clear()
    if body.get("static"):
        res = static_sanity()
        bad = [k for k, v in res.items() if not v]
        print("REPLAY: static sanity", res)
        return 1 if bad else 0
    ex = Exec()
    try:
        for op in body["ops"]:
            ex.apply(op)
    except common.Violation as v:
        print("REPLAY: reproduced", v.signature, str(core.to_jsonable(v.detail))[:600])
        return 1
    if common.REC.known:
        for sig, k in common.REC.known.items():
            print("REPLAY: reproduced (listed as an open known finding)", sig, str(k["detail"])[:400])
        return 1
    print("REPLAY: operation list ran clean on this tree")
    return 0


def run_check(prop, tier, master, n_runs=None, budget_s=None):
    t0 = time.time()
    budget_s = core.budget(tier, budget_s, thorough=1800.0)
    nproc = n_runs or (32 if tier == "quick" else 320)
    res, errors, skipped = common.run_machine_batch("sim.machines.c20", f"C20-{tier}", master, nproc, 50 if tier == "quick" else 300, 12, budget_s)
    summ, viol = common.summarise(res)
    out_viol = common.violations_to_replays("C20", "machine-c20", viol)
    stat = static_sanity()
    for k, v in stat.items():
        if not v:
            path = core.write_replay("C20", 0, f"C20:static-scaling:{k}", {"kind": "machine-c20", "static": True, "ops": []})
            out_viol.append({"signature": f"C20:static-scaling:{k}", "replay": path, "what": "bundled data set scaling / declared sizes / normalise-unnormalise inverse", "count": 1})
    wall = time.time() - t0
    coverage = {
        "evaluations": summ["examples"],
        "distinct_nontrivial": summ["distinct_op_sequences"],
        "rule": "evaluations = Hypothesis machine examples (evaluate histories over dataset / decoupled / bundled / BraninCurrin / generated continuous problems with injected and seeded noise). Distinct non-trivial = distinct operation-name sequences of length >= 2",
        "samples": summ["samples"],
        "machine": summ,
        "static_sanity_not_simulation": stat,
        "runs_skipped_for_time_budget": skipped,
        "examples_per_hour": round(summ["examples"] / max(wall, 1e-9) * 3600),
        "real_vs_stub": {"real": ["ProblemFromDataset", "DecoupledEvaluationProblem", "BraninCurrin", "ContinuousProblem.evaluate", "get_noisy_evaluations_chol", "get_closest_indices_from_points"], "simulated": ["np.random.normal as read by vopy.utils.utils (injected draws) / seeded global generator", "data sets and continuous test functions (generated)"]},
    }
    vac = None
    if summ["judged"].get("value", 0) < 100 or summ["faults_fired"].get("F14_injected_draws", 0) == 0:
        vac = "too few value judgements or no injected draws"
    core.finish("C20", tier, master, t0, coverage, out_viol, errors, ["convention: noise_cholesky is the lower Cholesky factor L of the configured covariance (as both problem classes build it), so a noisy evaluation is f + Z L^T", "statistical acceptance regions are >= 8 sigma (n = 4000): only gross deviations of the sampling law are detected"], vac)
