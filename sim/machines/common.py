"""Shared harness for the Hypothesis stateful machines (run outside pytest, one process per
PRNG value).  The machine records its own operation list; on a violation the list left by the
final (shrunk) execution is the replay file, not Hypothesis's blob."""
from __future__ import annotations

import hashlib
import json
import time
import traceback
from collections import Counter

import numpy as np

from .. import core
from ..core import run_seed


class Violation(Exception):
    def __init__(self, signature, detail, ops):
        super().__init__(signature)
        self.signature = signature
        self.detail = detail
        self.ops = ops


class KnownStop(Exception):
    """Raised after a violation that matches an open known finding: the example stops being
    judged (its state is no longer meaningful) but the worker's search goes on."""


_FINDINGS = None


def open_findings():
    global _FINDINGS
    if _FINDINGS is None:
        _FINDINGS = core.load_known_findings()
    return _FINDINGS


class BaseExec:
    """Applies recorded operations; subclasses implement _apply(op) and call self.violation()."""

    PROP = "C00"

    def __init__(self):
        self.ops = []
        self.dead = False

    def violation(self, signature, detail):
        if core.match_open_finding(open_findings(), self.PROP, signature) is not None:
            if signature not in REC.known:
                REC.known[signature] = {"signature": signature, "detail": core.to_jsonable(detail), "ops": core.to_jsonable(list(self.ops)), "count": 0}
            REC.known[signature]["count"] += 1
            self.dead = True
            raise KnownStop(signature)
        raise Violation(signature, detail, list(self.ops))

    def apply(self, op):
        if self.dead:
            return
        self.ops.append(op)
        REC.ops[op[0]] += 1
        REC.steps += 1
        try:
            self._apply(op)
        except KnownStop:
            pass


class Recorder:
    """Per-process coverage counters updated by the machines."""

    def __init__(self):
        self.examples = 0
        self.steps = 0
        self.ops = Counter()
        self.shapes = set()
        self.judged = Counter()
        self.faults = Counter()
        self.sample = None
        self.sample_kinds = 0
        self.known = {}
        self.h = hashlib.sha256()

    def end_example(self, ops):
        self.examples += 1
        self.h.update(repr(core.canon(core.to_jsonable(ops))).encode())
        names = tuple(o[0] for o in ops)
        if len(names) >= 2:
            self.shapes.add(hashlib.sha256(repr(names).encode()).hexdigest()[:12])
        if len(ops) >= 2 and (self.sample is None or len(set(names)) > self.sample_kinds) and len(ops) <= 40:
            self.sample = core.to_jsonable(ops[:14])
            self.sample_kinds = len(set(names))


REC = Recorder()


def pin_hypothesis():
    """Hypothesis >= 6.13x seeds generation with constants scraped from every *local* module in
    sys.modules (here: /repo/vopy and /verif/sim, whatever happens to be imported so far in this
    worker).  That makes an example a function of process history; switch it off so that one
    seed is one exactly repeatable execution."""
    import hypothesis.internal.conjecture.providers as HP

    if getattr(HP, "_vopy_verif_pinned", False):
        return
    empty = HP.Constants()
    HP._get_local_constants = lambda: empty
    HP._vopy_verif_pinned = True


def hyp_worker(task):
    """task = (module name, machine factory name, family, index, master, max_examples, steps)."""
    import importlib

    from hypothesis import HealthCheck, Phase, seed, settings
    from hypothesis.stateful import run_state_machine_as_test

    modname, family, index, master, max_examples, steps, extra = task
    pin_hypothesis()
    global REC
    REC = Recorder()
    mod = importlib.import_module(modname)
    mod.REC = REC
    s = run_seed(master, family, index) % (2**31)
    Machine = mod.make_machine(extra or {})
    st = settings(max_examples=max_examples, stateful_step_count=steps, database=None, deadline=None, report_multiple_bugs=False, suppress_health_check=list(HealthCheck), phases=[Phase.generate, Phase.shrink], print_blob=False)
    viol = None
    t0 = time.time()
    try:
        run_state_machine_as_test(seed(s)(Machine), settings=st)
    except Violation as v:
        viol = {"signature": v.signature, "detail": core.to_jsonable(v.detail), "ops": core.to_jsonable(v.ops), "seed": s}
    except core.HarnessError:
        raise
    except Exception as e:
        # an exception that is not a Violation escaped the machine: harness bug, not a verdict
        raise core.HarnessError(f"machine {modname} failed: {e!r}\n{traceback.format_exc()[-3000:]}")
    return {
        "index": index,
        "seed": s,
        "examples": REC.examples,
        "steps": REC.steps,
        "ops": dict(REC.ops),
        "shapes": sorted(REC.shapes),
        "judged": dict(REC.judged),
        "faults": dict(REC.faults),
        "sample": REC.sample,
        "viol": viol,
        "known": list(REC.known.values()),
        "ops_digest": REC.h.hexdigest(),
        "wall": time.time() - t0,
    }


def run_machine_batch(modname, family, master, n_workers_tasks, max_examples, steps, budget_s, extra=None):
    tasks = [(modname, family, i, master, max_examples, steps, extra) for i in range(n_workers_tasks)]
    results, errors, skipped = core.run_pool(hyp_worker, tasks, cap_s=1500, budget_s=budget_s)
    results.sort(key=lambda r: r["index"])
    return results, errors, skipped


def summarise(results):
    ops, judged, faults = Counter(), Counter(), Counter()
    shapes = set()
    ex = st = 0
    samples = []
    viol = {}
    for r in results:
        ex += r["examples"]
        st += r["steps"]
        ops.update(r["ops"])
        judged.update(r["judged"])
        faults.update(r["faults"])
        shapes.update(r["shapes"])
        if r["sample"] and len(samples) < 2:
            samples.append(r["sample"])
        if r["viol"]:
            viol.setdefault(r["viol"]["signature"], []).append(r["viol"])
        for kf in r.get("known", []):
            for _ in range(1):
                viol.setdefault(kf["signature"], []).append({"signature": kf["signature"], "detail": kf["detail"], "ops": kf["ops"], "seed": r["seed"]})
    return {"examples": ex, "steps": st, "ops": dict(ops), "judged": dict(judged), "faults_fired": dict(faults), "distinct_op_sequences": len(shapes), "samples": samples}, viol


def violations_to_replays(prop, kind, viol):
    out = []
    for sig, lst in sorted(viol.items()):
        lst.sort(key=lambda v: len(v["ops"]))
        v = lst[0]
        path = core.write_replay(prop, v["seed"], sig, {"kind": kind, "ops": v["ops"], "detail": v["detail"], "minimisation": {"by": "hypothesis shrinker", "ops": len(v["ops"])}, "how": "python check.py --replay <this file>"})
        out.append({"signature": sig, "replay": path, "what": json.dumps(v["detail"], default=str)[:400], "count": len(lst)})
    return out


def arr(x):
    return np.array(x, dtype=float)
