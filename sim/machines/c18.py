"""C18: adaptive discretisation tiles the domain; VOGP_AD declares only finest leaves.

(1) Hypothesis stateful machine over AdaptivelyDiscretizedDesignSpace: refine_design on arbitrary
    leaves in arbitrary order interleaved with update(); invariants in exact dyadic arithmetic.
(2) VOGP_AD run-level simulations on generated continuous problems with the leaf / tiling /
    max-depth invariants after every step (runner.check_tiling + check_refine)."""
from __future__ import annotations

import itertools
import time
from fractions import Fraction

import numpy as np
from hypothesis import strategies as st
from hypothesis.stateful import RuleBasedStateMachine, initialize, rule

from .. import core
from ..core import keyed_rng
from . import common
from .c14 import FuncPred

REC = common.REC


class Exec(common.BaseExec):
    PROP = "C18"

    def fail(self, cls, detail):
        self.violation(f"C18:{cls}:d{self.d}", detail)

    def frac_cell(self, i):
        return [(Fraction(float(c[0])), Fraction(float(c[1]))) for c in self.ds.cells[i]]

    def _apply(self, op):
        from vopy.design_space import AdaptivelyDiscretizedDesignSpace

        from .. import oracles as O

        name = op[0]
        if name == "init":
            _, d, m, max_depth, seed = op
            self.d, self.m = d, m
            self.ds = AdaptivelyDiscretizedDesignSpace(d, m, delta=0.1, max_depth=max_depth, confidence_type="hyperrectangle")
            self.model = FuncPred(m, seed)
            self.leaves = {0}
            self.refined = set()
            self.check_root()
        elif name == "update":
            _, sel, sseed = op
            n = len(self.ds.points)
            idx = sorted(set(v % n for v in sel))
            self.ds.update(self.model, np.array(float(keyed_rng(sseed, 3).choice([0.5, 1.0, 2.0]))), idx)
        elif name == "refine":
            leaves = sorted(self.leaves)
            i = leaves[op[1] % len(leaves)]
            ds = self.ds
            if ds.point_depths[i] >= ds.max_depth:
                REC.faults["refine_at_max_depth_skipped"] += 1
                return
            n0 = len(ds.points)
            parent_cell = self.frac_cell(i)
            parent_depth = ds.point_depths[i]
            parent_reg = O.snapshot_region(ds.confidence_regions[i])
            before_pts = ds.points.copy()
            before_cells = [list(map(list, c)) for c in ds.cells]
            kids = ds.refine_design(i)
            REC.judged["refine"] += 1
            d = self.d
            if list(kids) != list(range(n0, n0 + 2**d)):
                self.fail("children-indices", {"kids": list(map(int, kids)), "expected_start": n0, "count": 2**d})
            if not (len(ds.points) == len(ds.cells) == len(ds.point_depths) == len(ds.confidence_regions) == ds.cardinality == n0 + 2**d):
                self.fail("array-lengths-inconsistent", {"points": len(ds.points), "cells": len(ds.cells), "depths": len(ds.point_depths), "regions": len(ds.confidence_regions), "cardinality": ds.cardinality})
            if not np.array_equal(ds.points[:n0], before_pts) or [list(map(list, c)) for c in ds.cells[:n0]] != before_cells:
                self.fail("existing-nodes-changed", {})
            vol = Fraction(0)
            seen = set()
            for k in kids:
                cell = self.frac_cell(k)
                v = Fraction(1)
                for (lo, hi), (plo, phi) in zip(cell, parent_cell):
                    if hi - lo != (phi - plo) / 2:
                        self.fail("child-side-not-half", {"child": int(k), "cell": [[float(a), float(b)] for a, b in cell]})
                    if lo < plo or hi > phi:
                        self.fail("child-outside-parent", {"child": int(k)})
                    v *= hi - lo
                vol += v
                key = tuple(cell)
                if key in seen:
                    self.fail("duplicate-child-cell", {"child": int(k)})
                seen.add(key)
                centre = [float((lo + hi) / 2) for lo, hi in cell]
                if not np.array_equal(np.asarray(ds.points[k], float), np.array(centre)):
                    self.fail("child-point-not-cell-centre", {"child": int(k), "point": np.asarray(ds.points[k]).tolist(), "centre": centre})
                if ds.point_depths[k] != parent_depth + 1:
                    self.fail("child-depth", {"child": int(k), "depth": ds.point_depths[k], "parent_depth": parent_depth})
                if ds.point_depths[k] > ds.max_depth:
                    self.fail("depth-beyond-max", {"child": int(k)})
                cr = O.snapshot_region(ds.confidence_regions[k])
                if cr.key() != parent_reg.key():
                    self.fail("child-region-not-parents", {"child": int(k)})
                if ds.confidence_regions[k] is ds.confidence_regions[i]:
                    self.fail("child-region-aliases-parent", {"child": int(k)})
            pv = Fraction(1)
            for lo, hi in parent_cell:
                pv *= hi - lo
            if vol != pv:
                self.fail("children-do-not-tile-parent", {"children_volume": str(vol), "parent_volume": str(pv)})
            self.leaves.discard(i)
            self.refined.add(i)
            self.leaves |= set(int(k) for k in kids)
            self.check_leaves()
        elif name == "alias":
            # updating a child must not move its siblings or its parent (regions are not shared)
            leaves = sorted(self.leaves)
            i = leaves[op[1] % len(leaves)]
            from .. import oracles as O2

            before = [O2.snapshot_region(r).key() for r in self.ds.confidence_regions]
            self.ds.update(self.model, np.array(1.0), [i])
            after = [O2.snapshot_region(r).key() for r in self.ds.confidence_regions]
            REC.judged["alias"] += 1
            for k in range(len(before)):
                if k != i and before[k] != after[k]:
                    self.fail("update-of-one-node-changed-another", {"updated": i, "changed": k})
        else:  # pragma: no cover
            raise core.HarnessError("unknown op " + name)

    def check_root(self):
        ds = self.ds
        if len(ds.points) != 1 or not np.array_equal(ds.points[0], np.full(self.d, 0.5)) or ds.point_depths[0] != 1:
            self.fail("root-node", {})

    def check_leaves(self):
        """Leaves tile [0,1]^d with pairwise disjoint interiors (exact)."""
        REC.judged["tiling"] += 1
        cells = {i: self.frac_cell(i) for i in self.leaves}
        vol = Fraction(0)
        for i, c in cells.items():
            v = Fraction(1)
            for lo, hi in c:
                if lo < 0 or hi > 1 or hi <= lo:
                    self.fail("leaf-cell-outside-unit-cube", {"leaf": i})
                v *= hi - lo
            vol += v
        if vol != 1:
            self.fail("leaves-do-not-tile-unit-cube", {"volume": str(vol)})
        ls = sorted(cells)
        for a in range(len(ls)):
            for b in range(a + 1, len(ls)):
                ca, cb = cells[ls[a]], cells[ls[b]]
                if all(min(x[1], y[1]) > max(x[0], y[0]) for x, y in zip(ca, cb)):
                    self.fail("leaf-cells-overlap", {"pair": [ls[a], ls[b]]})


def make_machine(extra):
    class M(RuleBasedStateMachine):
        def __init__(self):
            super().__init__()
            self.ex = Exec()

        @initialize(d=st.integers(1, 3), m=st.integers(2, 3), depth=st.integers(2, 5), seed=st.integers(0, 10**6))
        def init(self, d, m, depth, seed):
            if d == 3:
                depth = min(depth, 3)
            self.ex.apply(["init", d, m, depth, seed])

        @rule(data=st.data())
        def step(self, data):
            kind = data.draw(st.sampled_from(["refine"] * 5 + ["update"] * 2 + ["alias"]))
            if kind == "refine":
                self.ex.apply(["refine", data.draw(st.integers(0, 255))])
            elif kind == "update":
                self.ex.apply(["update", data.draw(st.lists(st.integers(0, 255), min_size=1, max_size=5)), data.draw(st.integers(0, 10**6))])
            else:
                self.ex.apply(["alias", data.draw(st.integers(0, 255))])

        def teardown(self):
            REC.end_example(self.ex.ops)

    return M


def replay(body) -> int:
    common.REC.known.clear()
    ex = Exec()
    try:
        for op in body["ops"]:
            ex.apply(op)
    except common.Violation as v:
        print("REPLAY: reproduced", v.signature, str(core.to_jsonable(v.detail))[:600])
        return 1
    if common.REC.known:
        for sig, k in common.REC.known.items():
            print("REPLAY: reproduced (listed as an open known finding)", sig, str(k["detail"])[:400])
        return 1
    print("REPLAY: operation list ran clean on this tree")
    return 0


def run_check(prop, tier, master, n_runs=None, budget_s=None):
    from .. import propchecks

    t0 = time.time()
    budget_s = core.budget(tier, budget_s)
    nproc = n_runs or (32 if tier == "quick" else 320)
    res, errors, skipped = common.run_machine_batch("sim.machines.c18", f"C18-{tier}", master, nproc, 40 if tier == "quick" else 200, 14, budget_s * 0.35)
    summ, viol = common.summarise(res)
    out_viol = common.violations_to_replays("C18", "machine-c18", viol)
    n_a = n_runs or (70 if tier == "quick" else 2500)
    res_a, err_a, skipped_a = propchecks.inrun_batch("C18", f"C18-{tier}-runs", master, n_a, ["VOGP_AD"], ["C18"], opts={"fault_rates": (0.0, 0.0, 0.02)}, budget_s=max(30.0, budget_s - (time.time() - t0)))
    summ_a, viol_a, nontrivial_a = propchecks.inrun_summary("C18", res_a)
    out_viol += viol_a
    wall = time.time() - t0
    coverage = {
        "evaluations": summ["examples"] + len(res_a),
        "distinct_nontrivial": summ["distinct_op_sequences"] + len(nontrivial_a),
        "rule": "evaluations = Hypothesis machine examples (refine / update histories on AdaptivelyDiscretizedDesignSpace, d=1..3) + simulated VOGP_AD runs on generated continuous problems. Distinct non-trivial = distinct operation-name sequences of length >= 2 + distinct VOGP_AD trajectories with at least one tiling judgement",
        "samples": summ["samples"] + summ_a["samples"][:1],
        "machine": summ,
        "vogp_ad_runs": summ_a,
        "runs_skipped_for_time_budget": skipped + skipped_a,
        "examples_per_hour": round(summ["examples"] / max(wall, 1e-9) * 3600),
        "real_vs_stub": {"real": ["AdaptivelyDiscretizedDesignSpace", "VOGP_AD", "CorrelatedExactGPyTorchModel (seeded hyper-parameters)", "cvxpy solvers"], "simulated": ["continuous problems (generated smooth functions)", "stub model in the machine", "hyper-parameter fitting", "solver health"]},
        "note": "refine_design() itself has no max-depth guard (only should_refine_design has); the machine refines only nodes below max depth, as VOGP_AD does, and checks that no node beyond max depth ever appears in runs",
    }
    vac = None
    if summ["judged"].get("refine", 0) == 0 or summ_a["decided_judgements"].get("C18", 0) == 0:
        vac = "no refinement or no VOGP_AD tiling judgement"
    elif summ_a["probes"].get("vad_refined", 0) == 0:
        vac = "no VOGP_AD run ever refined a node"
    core.finish("C18", tier, master, t0, coverage, out_viol, errors + err_a, ["cell bounds are dyadic rationals: Fraction arithmetic on the floats is exact", "VOGP_AD runs use in_dim >= out_dim (open finding C06 in_dim<m)"], vac)
