"""Simulator core: seed discipline, event log / digest, worker pool, evidence, replay files,
known-findings protocol and the output contract (DESIGN.md sections 3.1, 3.6, 3.7, 6)."""
from __future__ import annotations

import faulthandler
import hashlib
import json
import multiprocessing as mp
import os
import sys
import time
import traceback
from collections import Counter
from concurrent.futures import ProcessPoolExecutor, as_completed
from typing import Any, Callable, Iterable, Optional

import numpy as np

VERIF_DIR = os.path.dirname(os.path.dirname(os.path.abspath(__file__)))
EVIDENCE_DIR = os.path.join(VERIF_DIR, "evidence")
if os.path.realpath(os.environ.get("VOPY_VERIF_REPO", "/repo")) != "/repo":
    # sensitivity runs against a scratch tree (tools/run_mutant.sh) must never overwrite the evidence of /repo
    EVIDENCE_DIR = os.path.join(VERIF_DIR, "evidence-scratch")
    os.makedirs(EVIDENCE_DIR, exist_ok=True)
REPLAY_DIR = os.path.join(VERIF_DIR, "replays")
KNOWN_FINDINGS = os.path.join(VERIF_DIR, "known_findings.json")

GUARD = "VOPY_VERIF"

# exit codes
OK, VIOLATION, ERROR = 0, 1, 2


class HarnessError(BaseException):
    """A failure of harness / oracle code.  Derives from BaseException so that neither VOPy's own
    `except` clauses nor the runner's "exception inside VOPy" handler can mistake it for a
    behaviour of the system under test; it surfaces as exit code 2 (ERROR), never as a verdict."""


def harness(fn):
    """Decorator: any ordinary exception escaping harness code becomes a HarnessError."""
    import functools

    @functools.wraps(fn)
    def inner(*a, **k):
        try:
            return fn(*a, **k)
        except (HarnessError, StopIteration):
            raise
        except Exception as e:
            raise HarnessError(f"{fn.__name__}: {e!r}\n{traceback.format_exc()[-3000:]}") from e

    return inner


# ----------------------------------------------------------------------------------------------
# process environment: single-threaded numerics, fixed hash seed (re-exec once if needed)
# ----------------------------------------------------------------------------------------------
_ENV = {
    "OMP_NUM_THREADS": "1",
    "MKL_NUM_THREADS": "1",
    "OPENBLAS_NUM_THREADS": "1",
    "NUMEXPR_NUM_THREADS": "1",
    "PYTHONHASHSEED": "0",
    GUARD: "1",
}


def ensure_env():
    """Re-exec the interpreter once so that BLAS threads and hash seed are pinned before import."""
    need = any(os.environ.get(k) != v for k, v in _ENV.items() if k != "PYTHONHASHSEED")
    if os.environ.get("PYTHONHASHSEED") is None:
        need = True
    if need and os.environ.get("_VOPY_VERIF_REEXEC") != "1":
        env = dict(os.environ)
        for k, v in _ENV.items():
            if k == "PYTHONHASHSEED" and env.get(k) is not None:
                continue
            env[k] = v
        env["_VOPY_VERIF_REEXEC"] = "1"
        os.execve(sys.executable, [sys.executable] + sys.argv, env)


def quiet_imports():
    import logging
    import warnings

    warnings.filterwarnings("ignore")
    logging.disable(logging.CRITICAL)
    import torch

    torch.set_num_threads(1)


# ----------------------------------------------------------------------------------------------
# seeds
# ----------------------------------------------------------------------------------------------
def budget(tier: str, explicit=None, quick: float = 420.0, thorough: float = 2400.0) -> float:
    """Wall-clock budget of a check's worker pools.  On the reference machine every quick batch ends
    well inside it; it only cuts runs on a machine several times slower (the cut is reported)."""
    if explicit:
        return float(explicit)
    env = os.environ.get("VERIF_BUDGET_S")
    if env:
        return float(env)
    return quick if tier == "quick" else thorough


def master_seed(default: int) -> int:
    v = os.environ.get("VERIF_SEED")
    return int(v) if v not in (None, "") else default


def run_seed(master: int, family: str, index: int) -> int:
    """One integer per run, a pure function of (VERIF_SEED, family name, run index)."""
    h = hashlib.sha256(f"{master}|{family}|{index}".encode()).digest()
    return int.from_bytes(h[:8], "big") >> 1


def keyed_rng(key: int, *spawn) -> np.random.Generator:
    """Keyed (not sequential) randomness: the stream for a given key tuple never depends on what
    else was drawn, so deleting steps during minimisation leaves all other moves unchanged."""
    return np.random.default_rng(np.random.SeedSequence(int(key) % (1 << 63), spawn_key=tuple(int(s) % (1 << 32) for s in spawn)))


def streams(seed: int):
    """scenario / adversary / fault / env children of one run seed."""
    ss = np.random.SeedSequence(seed)
    kids = ss.spawn(4)
    ints = [int(k.generate_state(1, dtype=np.uint64)[0]) >> 1 for k in kids]
    return {"scenario": np.random.default_rng(kids[0]), "adv_key": ints[1], "fault_key": ints[2], "env_seed": ints[3] % (2**31 - 1)}


# ----------------------------------------------------------------------------------------------
# event log
# ----------------------------------------------------------------------------------------------
def canon(x: Any):
    """Canonical, hash-stable form: floats as hex, arrays as nested lists, sets sorted."""
    if isinstance(x, (bool, np.bool_)):
        return bool(x)
    if isinstance(x, (int, np.integer)):
        return int(x)
    if isinstance(x, (float, np.floating)):
        return float(x).hex()
    if isinstance(x, np.ndarray):
        return [canon(v) for v in x.tolist()] if x.ndim else canon(x.item())
    if isinstance(x, (list, tuple)):
        return [canon(v) for v in x]
    if isinstance(x, (set, frozenset)):
        return [canon(v) for v in sorted(x)]
    if isinstance(x, dict):
        return {str(k): canon(v) for k, v in sorted(x.items(), key=lambda kv: str(kv[0]))}
    if x is None or isinstance(x, str):
        return x
    return repr(x)


class EventLog:
    def __init__(self, keep: bool = False):
        self.h = hashlib.sha256()
        self.n = 0
        self.keep = keep
        self.events: list = []

    def add(self, _kind: str, **fields):
        rec = [_kind, canon(fields)]
        s = json.dumps(rec, sort_keys=True, separators=(",", ":"))
        self.h.update(s.encode())
        self.n += 1
        if self.keep:
            self.events.append(rec)

    def digest(self) -> str:
        return self.h.hexdigest()


# ----------------------------------------------------------------------------------------------
# JSON helpers (replay files must round-trip floats exactly)
# ----------------------------------------------------------------------------------------------
def to_jsonable(x):
    if isinstance(x, dict):
        return {str(k): to_jsonable(v) for k, v in x.items()}
    if isinstance(x, (list, tuple)):
        return [to_jsonable(v) for v in x]
    if isinstance(x, (set, frozenset)):
        return sorted(to_jsonable(v) for v in x)
    if isinstance(x, np.ndarray):
        return to_jsonable(x.tolist())
    if isinstance(x, (np.bool_,)):
        return bool(x)
    if isinstance(x, np.integer):
        return int(x)
    if isinstance(x, np.floating):
        return float(x)
    return x


def dump_json(path: str, obj):
    tmp = path + ".tmp%d" % os.getpid()
    with open(tmp, "w") as f:
        json.dump(to_jsonable(obj), f, indent=1, sort_keys=True)
        f.write("\n")
    os.replace(tmp, path)


# ----------------------------------------------------------------------------------------------
# worker pool
# ----------------------------------------------------------------------------------------------
def _guarded(fn, task, cap_s):
    faulthandler.dump_traceback_later(cap_s, exit=True)
    try:
        return ("ok", fn(task))
    except BaseException as e:  # harness exception: reported as ERROR, never as a verdict
        return ("err", {"task": repr(task)[:400], "exc": repr(e), "tb": traceback.format_exc()[-4000:]})
    finally:
        faulthandler.cancel_dump_traceback_later()


def run_pool(fn: Callable, tasks: Iterable, workers: Optional[int] = None, cap_s: int = 600, budget_s: Optional[float] = None, on_result=None):
    """Run fn over tasks in forked workers.  Returns (results, errors, n_skipped).

    A dead or hung worker yields an error entry (the check then exits 2), never a pass."""
    tasks = list(tasks)
    workers = workers or int(os.environ.get("VERIF_WORKERS", "0")) or min(16, os.cpu_count() or 1)
    results, errors = [], []
    skipped = 0
    t0 = time.time()
    if workers <= 1:
        for t in tasks:
            if budget_s is not None and time.time() - t0 > budget_s:
                skipped += 1
                continue
            st, val = _guarded(fn, t, cap_s)
            (results if st == "ok" else errors).append(val)
            if st == "ok" and on_result:
                on_result(val)
        return results, errors, skipped
    ctx = mp.get_context("fork")
    with ProcessPoolExecutor(max_workers=workers, mp_context=ctx) as ex:
        pending = {}
        it = iter(tasks)
        exhausted = False

        def submit_more():
            nonlocal exhausted, skipped
            while not exhausted and len(pending) < workers * 2:
                try:
                    t = next(it)
                except StopIteration:
                    exhausted = True
                    return
                if budget_s is not None and time.time() - t0 > budget_s:
                    skipped += 1
                    continue
                pending[ex.submit(_guarded, fn, t, cap_s)] = t

        submit_more()
        while pending:
            done = next(as_completed(list(pending)))
            t = pending.pop(done)
            try:
                st, val = done.result()
            except BaseException as e:  # BrokenProcessPool etc.
                errors.append({"task": repr(t)[:400], "exc": repr(e), "tb": ""})
                for fut in list(pending):
                    pending.pop(fut)
                    errors.append({"task": "aborted-after-broken-pool", "exc": repr(e), "tb": ""})
                break
            if st == "ok":
                results.append(val)
                if on_result:
                    on_result(val)
            else:
                errors.append(val)
            submit_more()
    return results, errors, skipped


# ----------------------------------------------------------------------------------------------
# known findings
# ----------------------------------------------------------------------------------------------
def load_known_findings():
    if not os.path.exists(KNOWN_FINDINGS):
        return {"open": [], "fixed": []}
    with open(KNOWN_FINDINGS) as f:
        return json.load(f)


def match_open_finding(findings, prop: str, signature: str):
    import fnmatch

    for ent in findings.get("open", []):
        if ent.get("property") == prop and fnmatch.fnmatchcase(signature, ent.get("signature", "")):
            return ent
    return None


# ----------------------------------------------------------------------------------------------
# finishing a check: evidence + output contract
# ----------------------------------------------------------------------------------------------
def write_replay(prop: str, seed, signature: str, payload: dict) -> str:
    os.makedirs(REPLAY_DIR, exist_ok=True)
    sig = hashlib.sha256(signature.encode()).hexdigest()[:10]
    path = os.path.join(REPLAY_DIR, f"{prop}-{seed}-{sig}.json")
    body = dict(payload)
    body.update({"property": prop, "signature": signature, "seed": seed})
    dump_json(path, body)
    return path


def finish(
    prop: str,
    tier: str,
    seed: int,
    t0: float,
    coverage: dict,
    violations: list,
    errors: list,
    assumptions: list,
    vacuity: Optional[str] = None,
    level: str = "exploration",
):
    """violations: list of dicts {signature, replay, what}.  Applies the known-findings filter,
    writes evidence, prints the contract lines and exits."""
    findings = load_known_findings()
    unknown, known = [], {}
    for v in violations:
        ent = match_open_finding(findings, prop, v["signature"])
        if ent is None:
            unknown.append(v)
        else:
            known.setdefault(ent["signature"], (ent, []))[1].append(v)
    cov = dict(coverage)
    cov["known_findings_matched"] = {k: len(vs) for k, (e, vs) in known.items()}
    cov["harness_errors"] = len(errors)
    ev = {
        "property_id": prop,
        "tier": tier,
        "seed": int(seed),
        "level": level,
        "coverage": cov,
        "assumptions": assumptions,
        "wall_s": round(time.time() - t0, 2),
        "violations": len(unknown),
    }
    os.makedirs(EVIDENCE_DIR, exist_ok=True)
    dump_json(os.path.join(EVIDENCE_DIR, f"{prop}.json"), ev)
    for sig, (ent, vs) in sorted(known.items()):
        print(f"KNOWN-FINDING: property={prop} {ent.get('what', sig)} [{len(vs)} occurrence(s), e.g. replay={vs[0].get('replay')}]")
    if errors:
        for e in errors[:5]:
            print("ERROR: harness failure:", e.get("exc"), file=sys.stderr)
            if e.get("tb"):
                print(e["tb"], file=sys.stderr)
        print(f"ERROR property={prop}: {len(errors)} harness error(s); no verdict", flush=True)
        sys.exit(ERROR)
    if unknown:
        seen = set()
        for v in unknown:
            if v["signature"] in seen:
                continue
            seen.add(v["signature"])
            print(f"VIOLATION property={prop} replay={v['replay']}")
            print(f"  signature: {v['signature']}")
            if v.get("what"):
                print(f"  what: {v['what']}")
        sys.stdout.flush()
        sys.exit(VIOLATION)
    if vacuity:
        print(f"ERROR property={prop}: exercised nothing: {vacuity}", flush=True)
        sys.exit(ERROR)
    print(f"OK property={prop} tier={tier} seed={seed} evaluations={cov.get('evaluations')} wall_s={ev['wall_s']}", flush=True)
    sys.exit(OK)
