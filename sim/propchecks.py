"""Property-level checks that are not pure run-level searches: C08, C09, C10, C14, C15, C16, C18,
C20.  Each combines (where it applies) run-level simulation with an object-level workload driven
through the same seams; every unit of work is a pure function of one integer seed."""
from __future__ import annotations

import copy
import json
import math
import os
import time
from collections import Counter

import numpy as np

from . import core
from .core import keyed_rng, run_seed


def run(prop, tier, master, n_runs=None, budget_s=None):
    mod = {
        "C08": "c08",
        "C09": "predicates",
        "C10": "predicates",
        "C14": "machines.c14",
        "C15": "machines.c15",
        "C16": "machines.c16",
        "C18": "machines.c18",
        "C20": "machines.c20",
    }.get(prop)
    if mod is None:
        print(f"ERROR: no check is registered for {prop}")
        raise SystemExit(core.ERROR)
    import importlib

    m = importlib.import_module("sim." + mod)
    return m.run_check(prop, tier, master, n_runs=n_runs, budget_s=budget_s)


def replay(body) -> int:
    import importlib

    kind = body.get("kind", "")
    if kind == "pdom-call":
        from . import predicates

        return predicates.replay_pdom(body)
    mod = {
        "pred-call": "predicates",
        "c08": "c08",
        "machine-c14": "machines.c14",
        "machine-c15": "machines.c15",
        "machine-c16": "machines.c16",
        "machine-c18": "machines.c18",
        "machine-c20": "machines.c20",
    }.get(kind)
    if mod is None:
        print("ERROR: unknown replay kind", kind)
        return core.ERROR
    m = importlib.import_module("sim." + mod)
    return m.replay(body)


# ---------------------------------------------------------------------------------------------
# shared: run a batch of run-level simulations restricted to some monitors and collect the
# violations of one property (used for the "in-run" halves of C09 C10 C14 C15 C16 C18)
# ---------------------------------------------------------------------------------------------
def inrun_worker(task):
    from . import runner, scenarios

    prop, family, index, master, algos, props, opts = task
    seed = run_seed(master, family, index)
    sc = scenarios.gen_scenario(seed, algos, envs=opts.get("envs"), props=props, small=True, fault_rates=opts.get("fault_rates", (0.0, 0.0, 0.02, 0.2, 1.0)), features=opts.get("features"))
    t0 = time.time()
    res = runner.simulate(sc)
    res["wall"] = time.time() - t0
    res["index"] = index
    from .runlevel import brief

    res["scenario_brief"] = brief(sc)
    if any(v["prop"] == prop for v in res["violations"]):
        res["scenario"] = sc
    return res


def inrun_batch(prop, family, master, n, algos, props, opts=None, budget_s=None):
    tasks = [(prop, family, i, master, algos, props, opts or {}) for i in range(n)]
    results, errors, skipped = core.run_pool(inrun_worker, tasks, cap_s=900, budget_s=budget_s)
    results.sort(key=lambda r: r["index"])
    return results, errors, skipped


def inrun_summary(prop, results):
    from . import runlevel

    agg = Counter()
    faults, probes, decided, undecided = Counter(), Counter(), Counter(), Counter()
    both = {}
    trajs = set()
    nontrivial = set()
    by_algo = Counter()
    viol = {}
    for r in results:
        agg["rounds"] += r["rounds"]
        agg["evals"] += r["evaluations"]
        agg["solves"] += r["solves"]
        faults.update(r["faults"])
        probes.update(r["probes"])
        decided.update(r["decided"])
        undecided.update(r["undecided"])
        for k, v in r["both"].items():
            both.setdefault(k, set()).update(v)
        trajs.add(r["traj"])
        by_algo[r["algo"]] += 1
        if r["decided"].get(prop, 0) > 0:
            nontrivial.add(r["traj"] + ":" + r["algo"])
        for v in r["violations"]:
            if v["prop"] == prop:
                viol.setdefault(v["signature"], []).append((r, v))
    out_viol = []
    min_deadline = time.time() + 150  # total minimisation budget of this batch
    for sig, lst in sorted(viol.items()):
        r, v = lst[0]
        sc = r.get("scenario")
        path = None
        known = core.match_open_finding(core.load_known_findings(), prop, sig) is not None
        if sc is not None and known:
            path = core.write_replay(prop, sc.get("seed"), sig, {"kind": "run-level", "scenario": sc, "expect": {"signature": sig, "round": v.get("round"), "phase": v.get("phase"), "digest": r["digest"]}, "detail": v.get("detail"), "minimisation": {"minimised": False, "reason": "matches an open known finding"}})
        elif sc is not None and time.time() > min_deadline:
            path = core.write_replay(prop, sc.get("seed"), sig, {"kind": "run-level", "scenario": sc, "expect": {"signature": sig, "round": v.get("round"), "phase": v.get("phase"), "digest": r["digest"]}, "detail": v.get("detail"), "minimisation": {"minimised": False, "reason": "minimisation budget exhausted by earlier signatures"}})
        elif sc is not None:
            msc, got, info = runlevel.minimise(sc, sig, budget_s=min(60, max(5.0, min_deadline - time.time())))
            if got is not None:
                path = runlevel.make_replay(prop, msc, sig, info, got[0], got[1])
            else:
                path = core.write_replay(prop, sc.get("seed"), sig, {"kind": "run-level", "scenario": sc, "expect": {"signature": sig, "round": v.get("round"), "phase": v.get("phase"), "digest": r["digest"]}, "detail": v.get("detail"), "minimisation": info})
        out_viol.append({"signature": sig, "replay": path, "what": json.dumps(core.to_jsonable(v.get("detail")), default=str)[:400], "count": len(lst)})
    summary = {
        "runs": len(results),
        "runs_by_algorithm": dict(by_algo),
        "simulated_time": {"algorithm_rounds": agg["rounds"], "problem_evaluations": agg["evals"], "conic_solves": agg["solves"]},
        "faults_fired": dict(faults),
        "probes": dict(probes),
        "decided_judgements": dict(decided),
        "undecided_boundary_judgements": dict(undecided),
        "verdict_polarities_seen": {k: sorted(v) for k, v in both.items()},
        "distinct_trajectories": len(trajs),
        "distinct_nontrivial_runs": len(nontrivial),
        "samples": [r["scenario_brief"] | {"rounds": r["rounds"], "decided": r["decided"].get(prop, 0)} for r in results[:2]],
    }
    return summary, out_viol, nontrivial
