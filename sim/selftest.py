"""Self-tests of the machinery (DESIGN.md section 7): determinism of every unit of work.

    check.py selftest determinism        # default sample
    VERIF_SELFTEST_N=400 check.py selftest determinism

Each sampled seed is executed (a) in a 16-worker pool, (b) in a 4-worker pool and (c) in a fresh
interpreter started with another PYTHONHASHSEED; all event-log digests must be identical.  A
mismatch is an ERROR (exit 2), not a verdict."""
from __future__ import annotations

import hashlib
import json
import os
import subprocess
import sys
import time

from . import core
from .core import run_seed

ALGOS = ["PaVeBa", "PaVeBaGP", "PaVeBaPartialGP", "Auer", "VOGP", "EpsilonPAL", "VOGP_AD", "NaiveElimination", "DecoupledGP"]
MACHINES = ["sim.machines.c14", "sim.machines.c15", "sim.machines.c16", "sim.machines.c18", "sim.machines.c20"]


def unit(task):
    kind, name, index, master = task
    if kind == "run":
        from . import runner, scenarios

        seed = run_seed(master, "selftest-" + name, index)
        sc = scenarios.gen_scenario(seed, [name], small=True, features={"provoke_open_findings": True, "naive_lattice": True})
        sc["max_steps"] = min(sc.get("max_steps", 60), 60)
        res = runner.simulate(sc)
        return [kind, name, index, res["digest"]]
    if kind == "machine":
        from .machines import common

        r = common.hyp_worker((name, "selftest-" + name, index, master, 8, 10, {}))
        return [kind, name, index, r["ops_digest"] + ":" + str(r["examples"]) + ":" + (r["viol"]["signature"] if r["viol"] else "-")]
    if kind == "pred":
        from . import predicates

        r = predicates.direct_worker((name, "selftest-" + name, index, master, 12))
        return [kind, name, index, r["digest"]]
    if kind == "c08":
        from . import c08

        r = c08.mc_worker(("C08", "selftest-c08", index, master, 1, 20, 400))
        return [kind, name, index, r["digest"]]
    raise ValueError(kind)


def tasks(n, master):
    out = []
    per = max(2, n // (len(ALGOS) + len(MACHINES) + 3))
    for a in ALGOS:
        out += [("run", a, i, master) for i in range(per)]
    for m in MACHINES:
        out += [("machine", m, i, master) for i in range(max(2, per // 2))]
    out += [("pred", "C09", i, master) for i in range(per)]
    out += [("pred", "C10", i, master) for i in range(per)]
    out += [("c08", "c08", i, master) for i in range(max(2, per // 3))]
    return out


def run_all(n, master, workers):
    res, errors, _ = core.run_pool(unit, tasks(n, master), workers=workers, cap_s=900)
    if errors:
        for e in errors[:3]:
            print("ERROR:", e.get("exc"), e.get("tb", "")[-1500:], file=sys.stderr)
        raise core.HarnessError(f"{len(errors)} unit(s) failed")
    return {f"{k}|{nm}|{i}": d for k, nm, i, d in res}


def main(sub):
    master = core.master_seed(777)
    n = int(os.environ.get("VERIF_SELFTEST_N", "120"))
    if sub == "digest-dump":
        d = run_all(n, master, workers=int(os.environ.get("VERIF_WORKERS", "8")))
        print("DIGESTS " + json.dumps(d, sort_keys=True))
        return 0
    t0 = time.time()
    a = run_all(n, master, workers=16)
    b = run_all(n, master, workers=4)
    env = dict(os.environ)
    env["PYTHONHASHSEED"] = "12345"
    env["VERIF_SELFTEST_N"] = str(n)
    env["VERIF_SEED"] = str(master)
    env["VERIF_WORKERS"] = "11"
    env["_VOPY_VERIF_REEXEC"] = "1"
    out = subprocess.run([sys.executable, os.path.join(core.VERIF_DIR, "check.py"), "selftest", "digest-dump"], env=env, capture_output=True, text=True, timeout=3000)
    line = [ln for ln in out.stdout.splitlines() if ln.startswith("DIGESTS ")]
    if not line:
        print(out.stdout[-2000:], out.stderr[-2000:])
        print("ERROR: fresh-interpreter pass produced no digests")
        return core.ERROR
    c = json.loads(line[0][len("DIGESTS ") :])
    bad = [k for k in a if not (a[k] == b.get(k) == c.get(k))]
    print(f"selftest determinism: {len(a)} units x 3 passes (16 workers, 4 workers, fresh interpreter PYTHONHASHSEED=12345, 11 workers); mismatches={len(bad)}; wall={time.time() - t0:.0f}s")
    summary = {"units": len(a), "mismatches": bad[:20], "wall_s": round(time.time() - t0, 1), "master": master}
    core.dump_json(os.path.join(core.VERIF_DIR, "sensitivity", "selftest_determinism.json"), summary)
    if bad:
        for k in bad[:10]:
            print("  MISMATCH", k, a[k][:16], b.get(k, "?")[:16], c.get(k, "?")[:16])
        print("ERROR: nondeterminism detected")
        return core.ERROR
    return 0
