"""C08: NaiveElimination with its default sample count is (eps, delta)-PAC; P is always the exact
Pareto set of the per-design sample means.

(1) every history: run-level simulations (real seeded noise and a lattice-noise adversary that
    produces exact ties and chains in the running means) with the per-step brute-force Pareto
    oracle on the proxy-recorded observations (runner.check_naive_P);
(2) probability over the noise: seeded Monte-Carlo through the noise seam.  Two-design instances
    with planted gap eps(1+eta) along v (W v = alpha); the real object with its own default L;
    N independent noise streams; exact binomial test of H0: p_fail <= delta at level 1e-9, so an
    alarm is essentially impossible on a tree where the property holds, for every VERIF_SEED.
    The closed-form orthant probability of the same instance is reported next to it (labelled as
    analysis) and validates the Monte-Carlo harness."""
from __future__ import annotations

import json
import math
import time
from collections import Counter

import numpy as np

from . import core
from . import oracles as O
from .core import keyed_rng, run_seed

ALPHA_LEVEL = 1e-9


def binom_sf(k, n, p):
    """P[X >= k], X ~ Bin(n, p), exact in log space."""
    from scipy.stats import binom

    return float(binom.sf(k - 1, n, p))


def closed_form_fail(W, v_gap, sigma2, L):
    """P(not all facets of W (mu_hat_j - mu_hat_i) >= 0), difference ~ N(gap, 2 sigma^2 / L I)."""
    from scipy.stats import multivariate_normal

    mean = W @ v_gap
    cov = (2 * sigma2 / L) * (W @ W.T)
    K = len(mean)
    if K == 1:
        from scipy.stats import norm

        return float(norm.cdf(0, loc=mean[0], scale=math.sqrt(cov[0, 0])))
    # P(all >= 0) = P(-X <= 0) with -X ~ N(-mean, cov)
    try:
        p_ok = float(multivariate_normal(mean=-mean, cov=cov, allow_singular=True).cdf(np.zeros(K)))
    except Exception:
        return None
    return 1.0 - p_ok


def gen_instance(rng):
    deg = float(rng.choice([1, 2, 3, 5, 10, 20, 30, 45, 60, 75, 90, 105, 120, 135]))
    eps = float(rng.choice([0.05, 0.1, 0.2, 0.4]))
    delta = float(rng.choice([0.05, 0.1, 0.2, 0.3]))
    nv = float(rng.choice([0.0025, 0.01, 0.04, 0.25, 1.0, 2.25]))
    if rng.random() < 0.2:
        # noise variances far above 1 (the property quantifies over them): affordable with a large eps
        nv = float(rng.choice([9.0, 25.0, 100.0]))
        eps = float(rng.choice([2.0, 5.0, 10.0]))
        deg = float(rng.choice([60, 90, 120]))
    if deg < 30:
        # narrow cones: the ordering complexity beta = 1/sin(theta) is large and L grows with
        # beta^2; keep the run affordable with a large eps and little noise
        eps = float(rng.choice([0.5, 1.0, 2.0]))
        nv = float(rng.choice([1e-4, 1e-3, 0.0025, 0.01]))
    eta = float(rng.choice([0.01, 0.05, 0.2]))
    return {"deg": deg, "eps": eps, "delta": delta, "noise_var": nv, "eta": eta}


def default_L(inst):
    """The default count the object computes for this instance (read from the real object)."""
    from . import env as E
    from vopy.algorithms import NaiveElimination

    order = E.build_order({"kind": "theta2d", "deg": inst["deg"]})
    W = np.array(order.ordering_cone.W, float)
    alpha = O.oracle_alpha(W)
    v = np.linalg.lstsq(W, alpha, rcond=None)[0]
    gap = inst["eps"] * (1 + inst["eta"]) * v
    mu = np.array([[0.0, 0.0], gap.tolist()])
    X = np.array([[0.2], [0.8]])
    name = "C08DS"
    E.register_dataset(name, X, mu)
    try:
        algo = NaiveElimination(inst["eps"], inst["delta"], name, order, inst["noise_var"])
    finally:
        E.unregister_dataset(name)
    return algo, W, gap, order


def mc_worker(task):
    prop, family, index, master, n_inst, N, cap = task
    seed = run_seed(master, family, index)
    rng = np.random.default_rng(seed)
    out = []
    log = core.EventLog()
    for _ in range(n_inst):
        for attempt in range(50):
            inst = gen_instance(rng)
            algo, W, gap, order = default_L(inst)
            L = int(algo.L)
            if 1 <= L and L * 2 <= cap:
                break
        else:
            continue
        from . import env as E
        from vopy.algorithms import NaiveElimination

        fails = 0
        streams_seed = int(rng.integers(1 << 31))
        name = "C08DS"
        mu = np.array([[0.0, 0.0], gap.tolist()])
        E.register_dataset(name, np.array([[0.2], [0.8]]), mu)
        try:
            for r in range(N):
                np.random.seed((streams_seed + r) % (2**31 - 1))  # independent noise stream r
                a = NaiveElimination(inst["eps"], inst["delta"], name, order, inst["noise_var"])
                while not a.run_one_step():
                    pass
                P = sorted(int(i) for i in np.asarray(a.P).tolist())
                if P != [1]:
                    fails += 1
        finally:
            E.unregister_dataset(name)
        pval = binom_sf(fails, N, inst["delta"])
        cf = closed_form_fail(W, gap, inst["noise_var"], L)
        # power: smallest failure probability this N would flag with probability >= 0.5
        rec = dict(inst)
        rec.update({"L": L, "N": N, "fails": fails, "p_value_H0_pfail_le_delta": pval, "closed_form_fail_prob": cf, "streams_seed": streams_seed, "seed": seed})
        log.add("mc", **rec)
        out.append(rec)
    return {"index": index, "instances": out, "digest": log.digest()}


def run_instance_replay(body):
    inst = body["instance"]
    from . import env as E
    from vopy.algorithms import NaiveElimination

    algo, W, gap, order = default_L(inst)
    L = int(algo.L)
    N = inst["N"]
    name = "C08DS"
    E.register_dataset(name, np.array([[0.2], [0.8]]), np.array([[0.0, 0.0], gap.tolist()]))
    fails = 0
    try:
        for r in range(N):
            np.random.seed((inst["streams_seed"] + r) % (2**31 - 1))
            a = NaiveElimination(inst["eps"], inst["delta"], name, order, inst["noise_var"])
            while not a.run_one_step():
                pass
            if sorted(int(i) for i in np.asarray(a.P).tolist()) != [1]:
                fails += 1
    finally:
        E.unregister_dataset(name)
    pval = binom_sf(fails, N, inst["delta"])
    print(f"REPLAY: L={L} (recorded {inst['L']}), fails={fails}/{N} (recorded {inst['fails']}), p-value={pval:.3g}, closed-form fail prob={closed_form_fail(W, gap, inst['noise_var'], L)}")
    return 1 if pval < ALPHA_LEVEL else 0


def replay(body) -> int:
    return run_instance_replay(body)


def sig_of(inst):
    lv = "var<1" if inst["noise_var"] < 1 else "var>=1"
    return f"C08:failure-rate-exceeds-delta:default-L:{lv}"


def run_check(prop, tier, master, n_runs=None, budget_s=None):
    from . import propchecks

    t0 = time.time()
    budget_s = core.budget(tier, budget_s)
    # (1) per-step Pareto oracle -----------------------------------------------------------
    n_a = n_runs or (120 if tier == "quick" else 3000)
    res_a, err_a, skipped_a = propchecks.inrun_batch("C08", f"C08-{tier}-runs", master, n_a, ["NaiveElimination"], ["C08"], opts={"fault_rates": (0.0,), "envs": ["real"], "features": {"naive_lattice": True}}, budget_s=budget_s * 0.3)
    summ_a, viol_a, nontrivial_a = propchecks.inrun_summary("C08", res_a)
    # (2) Monte-Carlo -----------------------------------------------------------------------
    nproc = n_runs or (48 if tier == "quick" else 480)
    N = 150 if tier == "quick" else 400
    tasks = [("C08", f"C08-{tier}-mc", i, master, 2, N, 1600 if tier == "quick" else 4000) for i in range(nproc)]
    res_b, err_b, skipped_b = core.run_pool(mc_worker, tasks, cap_s=900, budget_s=max(30.0, budget_s - (time.time() - t0)))
    insts = [r for w in sorted(res_b, key=lambda w: w["index"]) for r in w["instances"]]
    out_viol = list(viol_a)
    flagged = [r for r in insts if r["p_value_H0_pfail_le_delta"] < ALPHA_LEVEL]
    by_sig = {}
    for r in flagged:
        by_sig.setdefault(sig_of(r), []).append(r)
    for sig, lst in sorted(by_sig.items()):
        lst.sort(key=lambda r: r["p_value_H0_pfail_le_delta"])
        r = lst[0]
        path = core.write_replay("C08", r["seed"], sig, {"kind": "c08", "instance": r, "how": "python check.py --replay <this file>"})
        out_viol.append({"signature": sig, "replay": path, "what": json.dumps({k: r[k] for k in ("deg", "eps", "delta", "noise_var", "eta", "L", "N", "fails", "closed_form_fail_prob")}), "count": len(lst)})
    wall = time.time() - t0
    worst = sorted(insts, key=lambda r: r["p_value_H0_pfail_le_delta"])[:3]
    distinct = set((r["deg"], r["eps"], r["delta"], r["noise_var"], r["eta"]) for r in insts if r["L"] >= 2)
    # harness validation: |observed rate - closed form| within 6 binomial sigma for every instance
    harness_ok = all(r["closed_form_fail_prob"] is None or abs(r["fails"] / r["N"] - r["closed_form_fail_prob"]) <= 6 * math.sqrt(max(r["closed_form_fail_prob"] * (1 - r["closed_form_fail_prob"]), 1e-4) / r["N"]) + 1e-9 for r in insts)
    coverage = {
        "evaluations": len(res_a) + sum(r["N"] for r in insts),
        "distinct_nontrivial": len(nontrivial_a) + len(distinct),
        "rule": "evaluations = simulated NaiveElimination runs with the per-step Pareto oracle (part 1) + complete Monte-Carlo runs of the real object at its default L (part 2). Distinct non-trivial = distinct run trajectories with a judged P + distinct (theta, eps, delta, noise variance, eta) instances whose default L is at least 2 (noise matters)",
        "samples": summ_a["samples"][:1] + [{k: r[k] for k in ("deg", "eps", "delta", "noise_var", "eta", "L", "N", "fails", "p_value_H0_pfail_le_delta", "closed_form_fail_prob")} for r in insts[:3]],
        "part1_every_history": summ_a,
        "part2_monte_carlo": {
            "instances": len(insts),
            "runs_per_instance": N,
            "test": f"exact binomial, H0: P[fail] <= delta, alarm iff p-value < {ALPHA_LEVEL}",
            "power_note": f"with N={N} an instance is flagged (with probability > 1/2) only when its true failure probability exceeds roughly delta + 6*sqrt(delta(1-delta)/N); rates marginally above delta are not detected",
            "flagged": len(flagged),
            "smallest_p_values": [{k: r[k] for k in ("deg", "eps", "delta", "noise_var", "eta", "L", "fails", "p_value_H0_pfail_le_delta", "closed_form_fail_prob")} for r in worst],
            "noise_var_below_1_instances": sum(1 for r in insts if r["noise_var"] < 1),
            "noise_var_at_least_1_instances": sum(1 for r in insts if r["noise_var"] >= 1),
            "closed_form_agrees_with_monte_carlo_within_6_sigma": harness_ok,
            "closed_form_is": "analysis (bivariate-normal orthant probability), reported for cross-validation only",
        },
        "runs_skipped_for_time_budget": skipped_a + skipped_b,
        "runs_per_hour": round((len(res_a) + sum(r["N"] for r in insts)) / max(wall, 1e-9) * 3600),
        "real_vs_stub": {"real": ["NaiveElimination", "ProblemFromDataset", "order.get_pareto_set", "cone beta / alpha"], "simulated": ["noise streams (seeded np.random; lattice-noise adversary in part 1)", "two-design data sets with planted gaps"]},
    }
    vac = None
    if summ_a["decided_judgements"].get("C08", 0) == 0 or len(insts) < 4:
        vac = "no P judged or fewer than 4 Monte-Carlo instances"
    errs = err_a + err_b
    if not harness_ok and not flagged:
        # (with a flagged instance the disagreement is a symptom of the violation -- e.g. the problem
        # does not deliver the configured noise -- and the VIOLATION is what gets reported)
        errs = errs + [{"exc": "Monte-Carlo harness disagrees with the closed-form failure probability by more than 6 sigma", "tb": ""}]
    core.finish("C08", tier, master, t0, coverage, out_viol, errs, ["numpy's Gaussian generator is correct", "failure = returned set differs from {better design} on a two-design instance with gap eps(1+eta) > eps", "Monte-Carlo detects failure rates well above delta only"], vac)
