"""Independent oracles (DESIGN.md section 4).

Nothing here imports vopy.  Every predicate returns a `Judgement`: a lower and an upper bound
on a signed margin (each backed by a certificate checked by plain arithmetic) plus the scale the
numerical band is taken relative to.  `decide(j, band)` turns it into True / False / None
(None = inside the band, never judged).
"""
from __future__ import annotations

import itertools
import math
from dataclasses import dataclass
from fractions import Fraction
from typing import Optional, Sequence

import numpy as np
from scipy.optimize import linprog, minimize, minimize_scalar, nnls


# ----------------------------------------------------------------------------------------------
# region snapshots (plain data, detached from vopy objects)
# ----------------------------------------------------------------------------------------------
@dataclass(frozen=True)
class Rect:
    lower: np.ndarray
    upper: np.ndarray

    @property
    def center(self):
        return (self.lower + self.upper) / 2

    @property
    def half(self):
        return (self.upper - self.lower) / 2

    def key(self):
        return ("R", tuple(float(x).hex() for x in self.lower), tuple(float(x).hex() for x in self.upper))


@dataclass(frozen=True)
class Ell:
    center: np.ndarray
    sigma: np.ndarray
    alpha: float

    def key(self):
        return (
            "E",
            tuple(float(x).hex() for x in self.center),
            tuple(float(x).hex() for x in np.asarray(self.sigma).ravel()),
            float(self.alpha).hex(),
        )

    def support_radius(self, v: np.ndarray) -> float:
        """max_{z in E} v.(z - center) = alpha * sqrt(v' Sigma v)."""
        q = float(v @ self.sigma @ v)
        return float(self.alpha) * math.sqrt(max(q, 0.0))


def snapshot_region(region) -> "Rect | Ell":
    """Copy a vopy confidence region into plain data (duck-typed, no vopy import)."""
    if hasattr(region, "lower") and hasattr(region, "upper"):
        return Rect(np.array(region.lower, dtype=float).copy(), np.array(region.upper, dtype=float).copy())
    return Ell(
        np.array(region.center, dtype=float).reshape(-1).copy(),
        np.array(region.sigma, dtype=float).reshape(len(np.atleast_1d(region.center).reshape(-1)), -1).copy(),
        float(np.asarray(region.alpha).reshape(-1)[0]),
    )


@dataclass
class Judgement:
    lo: float  # certified lower bound on the margin
    hi: float  # certified upper bound on the margin
    scale: float  # magnitude the band is relative to
    exact: bool = False  # margin computed in exact rational arithmetic
    info: Optional[dict] = None


def fallback_band(a, b):
    """Numerical band for a decision taken by the fallback solver (SCS, default eps = 1e-4).

    SCS's tolerances are relative to the magnitude of the *scaled* problem data.  For the
    constraint |Sigma^-1/2 (x - c)| <= alpha that magnitude is |Sigma^-1/2| |c|, so a feasibility
    error of eps inflates the region by about eps |c| sqrt(cond Sigma) in real units; for boxes by
    about eps (1 + |bounds|).  Decisions closer to the boundary than 20x that are SCS accuracy, not
    behaviour of the code under test, and are not judged."""
    eps = 1e-4
    k = 1.0
    mag = 1.0
    for r in (a, b):
        if isinstance(r, Rect):
            mag = max(mag, 1.0 + float(np.max(np.maximum(np.abs(r.lower), np.abs(r.upper)))))
        else:
            w = np.linalg.eigvalsh((r.sigma + r.sigma.T) / 2)
            lo = max(float(w[0]), 1e-300)
            k = max(k, math.sqrt(float(w[-1]) / lo))
            mag = max(mag, 1.0 + float(np.max(np.abs(r.center))) + float(r.alpha) * math.sqrt(float(w[-1])))
    return (1e-3, 20 * eps * mag * k)


def decide(j: Judgement, rel: float, abs_: float = 0.0) -> Optional[bool]:
    """True iff margin certainly >= 0 outside the band, False iff certainly < 0, else None."""
    if j.exact:
        return bool(j.lo >= 0)
    band = rel * j.scale + abs_
    if j.lo > band:
        return True
    if j.hi < -band:
        return False
    return None


# ----------------------------------------------------------------------------------------------
# cone arithmetic
# ----------------------------------------------------------------------------------------------
def cone_dominates_margin(W: np.ndarray, a: np.ndarray, b: np.ndarray) -> float:
    """a dominates b  <=>  min_n w_n.(a-b) >= 0."""
    return float(np.min(W @ (np.asarray(a, float) - np.asarray(b, float))))


def project_onto_cone(W: np.ndarray, w: np.ndarray):
    """Moreau: P_C(w) = w + W' lam*, lam* = argmin_{lam>=0} |w + W' lam| (Lawson-Hanson NNLS)."""
    lam, _ = nnls(W.T, -w, maxiter=1000)
    p = w + W.T @ lam
    return p, lam


def oracle_alpha(W: np.ndarray) -> np.ndarray:
    """alpha_n = max{ w_n.x : x in C, |x|<=1 } = |P_C(w_n)|, with certificate checks."""
    out = np.zeros(W.shape[0])
    for n in range(W.shape[0]):
        p, lam = project_onto_cone(W, W[n])
        # certificate: lam>=0, p in C, complementary slackness lam.(W p) ~ 0
        assert np.all(lam >= 0)
        assert np.min(W @ p) > -1e-9, ("projection not in cone", W, n)
        assert abs(float(lam @ (W @ p))) < 1e-8
        out[n] = float(np.linalg.norm(p))
    return out


def oracle_ustar(W: np.ndarray):
    """min |z| s.t. W z >= 1 by active-set enumeration with a KKT certificate.

    Returns (u_star, d1, z)."""
    K, m = W.shape
    best = None
    for r in range(1, min(K, m) + 1):
        for A in itertools.combinations(range(K), r):
            WA = W[list(A)]
            G = WA @ WA.T
            if np.linalg.cond(G) > 1e12:
                continue
            lam = np.linalg.solve(G, np.ones(r))
            if np.any(lam < -1e-12):
                continue
            z = WA.T @ lam
            if np.min(W @ z) < 1 - 1e-9:
                continue
            nz = float(np.linalg.norm(z))
            if best is None or nz < best[0] - 1e-13:
                best = (nz, z)
    if best is None:
        raise ValueError("cone has empty interior: no z with W z >= 1")
    nz, z = best
    return z / nz, nz, z


def oracle_gaps(mu: np.ndarray, W: np.ndarray, alpha: np.ndarray) -> np.ndarray:
    """Delta*_i = max_j min_n [w_n.(mu_j-mu_i)]^+ / alpha_n."""
    K = len(mu)
    out = np.zeros(K)
    for i in range(K):
        for j in range(K):
            if i == j:
                continue
            prod = W @ (mu[j] - mu[i])
            out[i] = max(out[i], float(np.min(np.maximum(prod, 0.0) / alpha)))
    return out


def pareto_bruteforce(vals: np.ndarray, W: np.ndarray, tol: float = 0.0):
    """Indices i such that no j with value different from i's weakly dominates i.

    Returns (pareto list with one representative (first index) per duplicate value,
             dominance matrix dom[j,i] = j dominates i)."""
    N = len(vals)
    dom = np.zeros((N, N), dtype=bool)
    for j in range(N):
        for i in range(N):
            dom[j, i] = bool(np.min(W @ (vals[j] - vals[i])) >= -tol)
    return dom


# ----------------------------------------------------------------------------------------------
# exact arithmetic helper for rectangles on dyadic data
# ----------------------------------------------------------------------------------------------
def _is_nice(x: np.ndarray) -> bool:
    """All entries are small dyadic rationals (k / 2^20, |x| < 2^20): float ops on them are exact."""
    x = np.asarray(x, dtype=float).ravel()
    if not np.all(np.isfinite(x)):
        return False
    y = x * (1 << 20)
    return bool(np.all(y == np.round(y)) and np.all(np.abs(x) < (1 << 20)))


def _frac(x):
    return [Fraction(float(v)) for v in np.asarray(x, dtype=float).ravel()]


# ----------------------------------------------------------------------------------------------
# is_dominated: forall z1 in R1, z2 in R2 : z2 + slack dominates z1
# ----------------------------------------------------------------------------------------------
def _rect_slack(slack, m):
    s = np.asarray(slack, dtype=float).reshape(-1)
    if s.size == 1:
        return np.full(m, float(s[0]))
    if s.size != m:
        raise ValueError("rect slack must be scalar or objective-space vector")
    return s


def rect_is_dominated(W: np.ndarray, r1: Rect, r2: Rect, slack) -> Judgement:
    m = len(r1.lower)
    s = _rect_slack(slack, m)
    if _is_nice(W) and _is_nice(r1.lower) and _is_nice(r1.upper) and _is_nice(r2.lower) and _is_nice(r2.upper) and _is_nice(s):
        Wf = [[Fraction(float(v)) for v in row] for row in W]
        l1, u1, l2, u2, sf = _frac(r1.lower), _frac(r1.upper), _frac(r2.lower), _frac(r2.upper), _frac(s)
        worst = None
        for row in Wf:
            val = Fraction(0)
            for d in range(m):
                if row[d] > 0:
                    val += row[d] * (l2[d] - u1[d] + sf[d])
                else:
                    val += row[d] * (u2[d] - l1[d] + sf[d])
            worst = val if worst is None else min(worst, val)
        w = float(worst)
        return Judgement(w, w, 1.0, exact=True)
    worst = math.inf
    scale = 0.0
    for row in W:
        pos = row > 0
        lo_term = np.where(pos, r2.lower - r1.upper, r2.upper - r1.lower) + s
        val = float(row @ lo_term)
        sc = float(np.abs(row) @ (np.maximum(np.abs(r1.lower), np.abs(r1.upper)) + np.maximum(np.abs(r2.lower), np.abs(r2.upper)) + np.abs(s)))
        if val < worst:
            worst = val
        scale = max(scale, sc)
    return Judgement(worst, worst, max(scale, 1e-300))


def _ell_slack(slack, K):
    s = np.asarray(slack, dtype=float).reshape(-1)
    if s.size == 1:
        return np.full(K, float(s[0]))
    if s.size != K:
        raise ValueError("ellipsoid slack must be scalar or per-facet vector")
    return s


def ell_is_dominated(W: np.ndarray, e1: Ell, e2: Ell, slack) -> Judgement:
    """min over E1 x E2 of w_n.(y-x) + slack_n >= 0 for every facet (support functions)."""
    K = W.shape[0]
    s = _ell_slack(slack, K)
    worst = math.inf
    scale = 0.0
    per = []
    for n in range(K):
        w = W[n]
        cd = float(w @ (e2.center - e1.center))
        r = e2.support_radius(w) + e1.support_radius(w)
        val = cd - r + s[n]
        per.append(val)
        worst = min(worst, val)
        scale = max(scale, abs(cd) + r + abs(s[n]), float(np.abs(w) @ (np.abs(e1.center) + np.abs(e2.center))) * 1e-3)
    return Judgement(worst, worst, max(scale, 1e-300), info={"per_facet": per})


# ----------------------------------------------------------------------------------------------
# is_covered: exists z1 in R1, z2 in R2 : W (z2 - z1) >= slack-ish
# ----------------------------------------------------------------------------------------------
def _maxmin_over_box(W: np.ndarray, lo: np.ndarray, hi: np.ndarray, shift: np.ndarray) -> Judgement:
    """margin = max_{d in [lo,hi]} min_n ( w_n.d - shift_n ).

    The answer is only trusted through certificates:
      lower bound: a witness d inside the box evaluated by plain arithmetic;
      upper bound: any lam on the simplex gives  max_box (W'lam).d - lam.shift  >= margin.
    Cheap certificates (corners, unit / uniform multipliers) are tried first; the LP (HiGHS) is
    only solved when they leave the sign of the margin open."""
    K, m = W.shape
    size = float(np.max(np.abs(W) @ (np.maximum(np.abs(lo), np.abs(hi)))) + np.max(np.abs(shift)))
    size = max(size, 1e-300)
    best_lo = float(np.min(W @ ((lo + hi) / 2) - shift))
    best_hi = math.inf

    def use_lam(lam):
        nonlocal best_lo, best_hi
        v = W.T @ lam
        ub = float(np.sum(np.where(v > 0, v * hi, v * lo)) - lam @ shift)
        if ub < best_hi:
            best_hi = ub
        corner = np.where(v > 0, hi, lo)
        lb = float(np.min(W @ corner - shift))
        if lb > best_lo:
            best_lo = lb

    for n in range(K):
        e = np.zeros(K)
        e[n] = 1.0
        use_lam(e)
    use_lam(np.full(K, 1.0 / K))
    tight = (best_hi - best_lo) <= 1e-12 * size
    if tight or best_lo > 1e-3 * size or best_hi < -1e-3 * size:
        return Judgement(best_lo, best_hi, size)
    # variables (d, t): maximise t  s.t.  -W d + t <= -shift, lo<=d<=hi
    c = np.zeros(m + 1)
    c[-1] = -1.0
    A = np.hstack([-W, np.ones((K, 1))])
    bounds = [(float(l), float(h)) for l, h in zip(lo, hi)] + [(None, None)]
    try:
        res = linprog(c, A_ub=A, b_ub=-shift, bounds=bounds, method="highs")
        if res.status == 0:
            d = np.clip(res.x[:m], lo, hi)
            best_lo = max(best_lo, float(np.min(W @ d - shift)))
            marg = getattr(res, "ineqlin", None)
            if marg is not None and marg.marginals is not None:
                lam_c = np.maximum(-np.asarray(marg.marginals, dtype=float), 0)
                if np.all(np.isfinite(lam_c)) and lam_c.sum() > 0:
                    use_lam(lam_c / lam_c.sum())
    except Exception:  # pragma: no cover - oracle robustness: bounds stay certified
        pass
    return Judgement(best_lo, best_hi, size)


def rect_is_covered(W: np.ndarray, r1: Rect, r2: Rect, slack) -> Judgement:
    """exists z1 in R1, z2 in R2 : W (z2 - z1 - s) >= 0, s an objective-space shift."""
    m = len(r1.lower)
    s = _rect_slack(slack, m)
    lo = r2.lower - r1.upper
    hi = r2.upper - r1.lower
    j = _maxmin_over_box(W, lo, hi, W @ s)
    j.scale = max(
        j.scale,
        float(np.max(np.abs(W) @ (np.maximum(np.abs(r1.lower), np.abs(r1.upper)) + np.maximum(np.abs(r2.lower), np.abs(r2.upper))))),
    )
    return j


def ell_is_covered(W: np.ndarray, e1: Ell, e2: Ell, slack) -> Judgement:
    """exists x in E1, y in E2 : W (y - x) >= s (per facet).

    margin = max_{d in E2 (-) E1} min_n (w_n.d - s_n) = min_{lam in simplex} g(lam),
    g(lam) = v.(c2-c1) + a2 |S2^{1/2} v| + a1 |S1^{1/2} v| - lam.s,  v = W' lam.
    Any lam gives an upper bound g(lam); any d in the difference body gives a lower bound."""
    K = W.shape[0]
    s = _ell_slack(slack, K)
    dc = e2.center - e1.center

    def g(lam):
        v = W.T @ lam
        return float(v @ dc) + e2.support_radius(v) + e1.support_radius(v) - float(lam @ s)

    def witness(lam):
        v = W.T @ lam
        d = dc.copy()
        for e in (e1, e2):
            q = float(v @ e.sigma @ v)
            if q > 0:
                d = d + float(e.alpha) * (e.sigma @ v) / math.sqrt(q)
        return d

    def lower_of(d):
        return float(np.min(W @ d - s))

    starts = [np.full(K, 1.0 / K)]
    for n in range(K):
        e = np.zeros(K)
        e[n] = 1.0
        starts.append(e)
    best_hi = math.inf
    best_lam = starts[0]
    lams = list(starts)
    if K == 2:
        res = minimize_scalar(lambda t: g(np.array([t, 1 - t])), bounds=(0.0, 1.0), method="bounded", options={"xatol": 1e-12})
        lams.append(np.array([res.x, 1 - res.x]))
    else:
        cons = [{"type": "eq", "fun": lambda lam: np.sum(lam) - 1.0}]
        for st in (starts[0], 0.5 * starts[0] + 0.5 * starts[1]):
            try:
                res = minimize(g, st, method="SLSQP", bounds=[(0, 1)] * K, constraints=cons, options={"maxiter": 200, "ftol": 1e-14})
                lam = np.clip(res.x, 0, None)
                if lam.sum() > 0:
                    lams.append(lam / lam.sum())
            except Exception:  # pragma: no cover
                pass
    for lam in lams:
        val = g(lam)
        if val < best_hi:
            best_hi, best_lam = val, lam
    # lower bounds from witnesses
    best_lo = lower_of(dc)
    for lam in lams:
        best_lo = max(best_lo, lower_of(witness(lam)))
    if best_lo < 0 < best_hi or (best_hi - best_lo) > 1e-7 * (abs(best_hi) + abs(best_lo) + 1e-300):
        # refine the witness by maximising the concave min directly over the difference body
        # d = dc + a2 S2^{1/2} p2 + a1 S1^{1/2} p1, |p1|,|p2| <= 1  (projected supergradient ascent)
        L1 = _sqrt_psd(e1.sigma) * float(e1.alpha)
        L2 = _sqrt_psd(e2.sigma) * float(e2.alpha)
        v0 = W.T @ best_lam
        p1 = _unit(L1.T @ v0)
        p2 = _unit(L2.T @ v0)
        step = 0.5
        for it in range(200):
            d = dc + L2 @ p2 + L1 @ p1
            vals = W @ d - s
            lo_now = float(np.min(vals))
            if lo_now > best_lo:
                best_lo = lo_now
            n = int(np.argmin(vals))
            gsub = W[n]
            p1n = _proj_ball(p1 + step * _unit(L1.T @ gsub))
            p2n = _proj_ball(p2 + step * _unit(L2.T @ gsub))
            p1, p2 = p1n, p2n
            step *= 0.97
    scale = abs(float(np.max(np.abs(W @ dc)))) + max(e1.support_radius(W[n]) + e2.support_radius(W[n]) for n in range(K)) + float(np.max(np.abs(s)))
    scale = max(scale, float(np.max(np.abs(W) @ (np.abs(e1.center) + np.abs(e2.center)))) * 1e-3)
    return Judgement(best_lo, best_hi, max(scale, 1e-300))


def _sqrt_psd(S: np.ndarray) -> np.ndarray:
    w, V = np.linalg.eigh((S + S.T) / 2)
    return (V * np.sqrt(np.maximum(w, 0))) @ V.T


def _unit(v):
    n = float(np.linalg.norm(v))
    return v / n if n > 0 else v


def _proj_ball(p):
    n = float(np.linalg.norm(p))
    return p / n if n > 1 else p


# ----------------------------------------------------------------------------------------------
# pessimistic comparison: every point of R1 dominates some point of R2
# ----------------------------------------------------------------------------------------------
def rect_check_dominates(W: np.ndarray, r1: Rect, r2: Rect) -> Judgement:
    """margin = min over vertices v of R1 of max_{z in R2} min_n w_n.(v - z)."""
    m = len(r1.lower)
    worst_lo, worst_hi = math.inf, math.inf
    scale = 0.0
    for bits in itertools.product((0, 1), repeat=m):
        v = np.where(np.array(bits) == 1, r1.upper, r1.lower)
        # max_{z in R2} min_n w_n.(v - z): substitute d = -z in [-u2, -l2], shift_n = -w_n.v
        j = _maxmin_over_box(W, -r2.upper, -r2.lower, -(W @ v))
        worst_lo = min(worst_lo, j.lo)
        worst_hi = min(worst_hi, j.hi)
        scale = max(scale, j.scale)
    scale = max(
        scale,
        float(np.max(np.abs(W) @ (np.maximum(np.abs(r1.lower), np.abs(r1.upper)) + np.maximum(np.abs(r2.lower), np.abs(r2.upper))))),
    )
    return Judgement(worst_lo, worst_hi, max(scale, 1e-300))


# ----------------------------------------------------------------------------------------------
# dispatch on region kind
# ----------------------------------------------------------------------------------------------
def is_dominated(W, a, b, slack) -> Judgement:
    if isinstance(a, Rect):
        return rect_is_dominated(W, a, b, slack)
    return ell_is_dominated(W, a, b, slack)


def is_covered(W, a, b, slack) -> Judgement:
    if isinstance(a, Rect):
        return rect_is_covered(W, a, b, slack)
    return ell_is_covered(W, a, b, slack)


def contains(region, pt: np.ndarray, rel: float = 1e-9) -> Optional[bool]:
    """Is pt inside the region?  None when within rel of the boundary."""
    pt = np.asarray(pt, dtype=float)
    if isinstance(region, Rect):
        sc = float(np.max(np.maximum(np.abs(region.lower), np.abs(region.upper)))) + 1e-300
        verdict: Optional[bool] = True
        for d in range(len(pt)):
            lo, up = float(region.lower[d]), float(region.upper[d])
            if lo == up:
                # degenerate coordinate (F4): mean -/+ 0*scale is exact, so equality is decidable
                if pt[d] != lo:
                    if abs(pt[d] - lo) > rel * sc:
                        return False
                    verdict = None
                continue
            marg = min(pt[d] - lo, up - pt[d])
            if marg < -rel * sc:
                return False
            if marg <= rel * sc:
                verdict = None
        return verdict
    d = pt - region.center
    S = (region.sigma + region.sigma.T) / 2
    try:
        q = float(d @ np.linalg.solve(S, d))
    except np.linalg.LinAlgError:
        return None
    r = math.sqrt(max(q, 0.0))
    a = float(region.alpha)
    if r < a * (1 - 1e-6):
        return True
    if r > a * (1 + 1e-6):
        return False
    return None


# ----------------------------------------------------------------------------------------------
# GP closed forms
# ----------------------------------------------------------------------------------------------
def gp_posterior(Kxx: np.ndarray, Ksx: np.ndarray, Kss_diag_or_full: np.ndarray, y: np.ndarray, noise: np.ndarray, mean_train: np.ndarray, mean_test: np.ndarray):
    """Exact GP conditioning.  Kxx (n,n) prior Gram on train, Ksx (s,n), Kss (s,s) full,
    noise (n,n) matrix added to Kxx.  Returns posterior mean (s,) and covariance (s,s)."""
    n = len(y)
    if n == 0:
        return mean_test.copy(), Kss_diag_or_full.copy()
    A = Kxx + noise
    L = np.linalg.cholesky((A + A.T) / 2)
    r = y - mean_train
    a = np.linalg.solve(L.T, np.linalg.solve(L, r))
    mu = mean_test + Ksx @ a
    V = np.linalg.solve(L, Ksx.T)
    cov = Kss_diag_or_full - V.T @ V
    return mu, cov


def rbf_ard(X1: np.ndarray, X2: np.ndarray, lengthscale: np.ndarray, outputscale: float = 1.0) -> np.ndarray:
    a = np.asarray(X1, float) / lengthscale
    b = np.asarray(X2, float) / lengthscale
    d2 = np.sum(a * a, 1)[:, None] + np.sum(b * b, 1)[None, :] - 2 * a @ b.T
    return outputscale * np.exp(-0.5 * np.maximum(d2, 0.0))
