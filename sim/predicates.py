"""C09 / C10: region predicates behind the solver retry seam.

Two parts, reported separately in the evidence:
  (a) run-reached: every predicate call made during simulated runs (with injected solver failures)
      is compared with the oracle by the runner's per-call monitor;
  (b) direct seeded workload: region pairs over sizes 1e-4..1e2, anisotropy, correlation, nesting /
      touching / identical regions, cones with K_f >= m, scalar and vector slack, pushed through the
      same recording wrapper under fault rates {0, 0.3, 1.0}.  This is plain seeded input
      generation -- it is there so that the fault injection has calls to act on over the stated
      quantifier (no algorithm calls the ellipsoid `is dominated` with non-zero slack).
"""
from __future__ import annotations

import json
import math
import time
from collections import Counter

import numpy as np

from . import core
from . import oracles as O
from .core import keyed_rng, run_seed

KIND = {"C09": "is_dominated", "C10": "is_covered"}


# ---------------------------------------------------------------------------------------------
def gen_cone_spec(rng):
    from .scenarios import gen_cone

    c = rng.random()
    if c < 0.15:
        # integer (dyadic) cone matrices: boundary cases are exactly representable
        W = [[1.0, 0.0], [1.0, 1.0]] if rng.random() < 0.5 else [[1.0, 0.0, 0.0], [0.0, 1.0, 0.0], [0.0, 0.0, 1.0], [1.0, 1.0, -1.0]]
        return {"kind": "matrix", "W": W}
    return gen_cone(rng, m=int(rng.choice([2, 2, 3])))


def gen_pair(rng, W, rect: bool, dyadic: bool):
    """Returns (region1, region2, slack) as plain dicts."""
    K, m = W.shape
    scale = float(rng.choice([1e-4, 1e-3, 1e-2, 0.1, 1.0, 10.0, 100.0]))
    cs = float(rng.choice([0.1, 1.0, 3.0]))
    shape = str(rng.choice(["generic", "generic", "nested", "touching", "identical", "far", "degenerate"]))
    if rect:
        if dyadic:
            q = 1.0 / 64
            c1 = np.round(rng.normal(size=m) * 2 / q) * q
            h1 = np.round(np.abs(rng.normal(size=m)) / q + 1) * q
            h2 = np.round(np.abs(rng.normal(size=m)) / q + 1) * q
            if shape == "degenerate":
                h1[int(rng.integers(m))] = 0.0
            l1, u1 = c1 - h1, c1 + h1
            # place R2 exactly on / just off the boundary of domination along the axes
            off = float(rng.choice([0.0, 0.0, q, -q, 4 * q]))
            l2 = u1 + off
            u2 = l2 + 2 * h2
            if shape == "identical":
                l2, u2 = l1.copy(), u1.copy()
            s = np.round(np.abs(rng.normal(size=m)) / q) * q * float(rng.choice([0, 0, 1]))
            slack = s if rng.random() < 0.5 else np.array(float(s[0]))
            return {"lower": l1, "upper": u1}, {"lower": l2, "upper": u2}, slack
        c1 = rng.normal(size=m) * cs
        h1 = np.abs(rng.normal(size=m)) * scale * np.exp(rng.normal(size=m) * (1.5 if rng.random() < 0.4 else 0.1))
        h2 = np.abs(rng.normal(size=m)) * scale * np.exp(rng.normal(size=m) * (1.5 if rng.random() < 0.4 else 0.1))
        if shape == "degenerate":
            h1[int(rng.integers(m))] = 0.0
        if shape == "nested":
            c2, h2 = c1 + (rng.uniform(-0.3, 0.3, size=m)) * h1, h1 * rng.uniform(0.2, 0.8)
        elif shape == "touching":
            c2 = c1 + (h1 + h2) * rng.choice([-1.0, 1.0], size=m)
        elif shape == "identical":
            c2, h2 = c1.copy(), h1.copy()
        elif shape == "far":
            c2 = c1 + rng.normal(size=m) * scale * 20
        else:
            c2 = c1 + rng.normal(size=m) * scale * 2
        sl = float(rng.choice([0.0, 0.0, 0.1 * scale, scale, 5 * scale]))
        slack = np.array(sl) if rng.random() < 0.5 else np.abs(rng.normal(size=m)) * sl
        return {"lower": c1 - h1, "upper": c1 + h1}, {"lower": c2 - h2, "upper": c2 + h2}, slack
    # ellipsoids
    def cov():
        A = rng.normal(size=(m, m))
        S = A @ A.T + 0.05 * np.eye(m)
        if rng.random() < 0.4:
            w = np.exp(rng.uniform(-math.log(100) / 2, math.log(100) / 2, size=m))
            Q, _ = np.linalg.qr(rng.normal(size=(m, m)))
            S = (Q * w**2) @ Q.T
        if rng.random() < 0.2:
            S = np.diag(np.diag(S))
        return S * scale**2

    c1 = rng.normal(size=m) * cs
    S1, S2 = cov(), cov()
    a1, a2 = float(rng.uniform(0.5, 3)), float(rng.uniform(0.5, 3))
    r1 = math.sqrt(np.max(np.linalg.eigvalsh(S1))) * a1
    r2 = math.sqrt(np.max(np.linalg.eigvalsh(S2))) * a2
    if shape == "nested":
        c2, S2, a2 = c1 + rng.normal(size=m) * 0.1 * r1, S1 * rng.uniform(0.1, 0.6), a1
    elif shape == "touching":
        d = rng.normal(size=m)
        c2 = c1 + d / np.linalg.norm(d) * (r1 + r2)
    elif shape == "identical":
        c2, S2, a2 = c1.copy(), S1.copy(), a1
    elif shape == "far":
        c2 = c1 + rng.normal(size=m) * scale * 30
    else:
        c2 = c1 + rng.normal(size=m) * scale * 3
    sl = float(rng.choice([0.0, 0.0, 0.1 * scale, scale, 5 * scale]))
    slack = np.array(sl) if rng.random() < 0.5 else np.abs(rng.normal(size=K)) * sl
    return {"center": c1, "sigma": S1, "alpha": a1}, {"center": c2, "sigma": S2, "alpha": a2}, slack


def build_region(d):
    from vopy.confidence_region import EllipsoidalConfidenceRegion, RectangularConfidenceRegion

    if "lower" in d:
        lo, up = np.array(d["lower"], float), np.array(d["upper"], float)
        return RectangularConfidenceRegion(len(lo), lo, up)
    c = np.array(d["center"], float)
    return EllipsoidalConfidenceRegion(len(c), c, np.array(d["sigma"], float), float(d["alpha"]))


def judge_call(kind, cone_spec, d1, d2, slack, solver_rate, fault_key, log=None):
    """Execute one predicate call through the recording wrapper under a run context and compare
    with the oracle.  Returns dict(verdict, result, faulted, judgement, statuses...)."""
    from . import env as E
    from .runner import BAND_FALLBACK, BAND_FLOAT, BAND_NOMINAL

    E.install_seams()
    order = E.build_order(cone_spec)
    W = np.array(order.ordering_cone.W, float)
    r1, r2 = build_region(d1), build_region(d2)
    rect = "lower" in d1
    lg = log or core.EventLog()
    got = {}

    def hook(k, o, a, b, s, res, faulted):
        got.update(res=bool(res), faulted=faulted, status=ctx.last_status)

    ctx = E.RunContext(lg, fault_key=fault_key, solver_rate=solver_rate, pred_hook=hook)
    ctx.phase = "direct"
    E.set_ctx(ctx)
    exc = None
    try:
        E.PRED_WRAPPERS[kind](order, r1, r2, np.array(slack, float))
    except Exception as e:  # an exception escaping the predicate is itself a verdict
        exc = e
    finally:
        E.set_ctx(None)
    out = {"faults": dict(ctx.faults), "probes": dict(ctx.probes), "exc": None if exc is None else repr(exc)[:200]}
    s1, s2 = O.snapshot_region(r1), O.snapshot_region(r2)
    try:
        jd = O.is_dominated(W, s1, s2, slack) if kind == "is_dominated" else O.is_covered(W, s1, s2, slack)
    except ValueError:
        out["verdict"] = "undefined-slack"
        return out
    faulted = bool(ctx.faults.get("F1_solver_error_injected"))
    if exc is not None:
        out["verdict"] = "exception"
        out["faulted"] = faulted
        out["margin"] = [jd.lo, jd.hi]
        return out
    band = O.fallback_band(s1, s2) if faulted else (BAND_FLOAT if (rect and kind == "is_dominated") else BAND_NOMINAL)
    d = O.decide(jd, *band)
    out.update(result=got.get("res"), faulted=faulted, status=got.get("status"), margin=[jd.lo, jd.hi], scale=jd.scale, exact=jd.exact, oracle=d)
    if d is None:
        out["verdict"] = "undecided"
    elif d == got.get("res"):
        out["verdict"] = "ok"
    else:
        out["verdict"] = "wrong"
    return out


def direct_worker(task):
    prop, family, index, master, calls = task
    kind = KIND[prop]
    seed = run_seed(master, family, index)
    rng = np.random.default_rng(seed)
    stats = Counter()
    faults, probes = Counter(), Counter()
    viol = []
    shapes = set()
    samples = []
    log = core.EventLog()
    for c in range(calls):
        spec = gen_cone_spec(rng)
        from .env import build_order

        W = np.array(build_order(spec).ordering_cone.W, float)
        rect = bool(rng.random() < 0.5)
        dyadic = rect and kind == "is_dominated" and W.shape[0] <= 4 and O._is_nice(W) and rng.random() < 0.8
        d1, d2, slack = gen_pair(rng, W, rect, dyadic)
        rate = float(rng.choice([0.0, 0.0, 0.3, 1.0]))
        if rect and kind == "is_dominated":
            rate = 0.0  # no solver in this branch
        fk = int(rng.integers(1 << 60))
        out = judge_call(kind, spec, d1, d2, slack, rate, fk, log=log)
        log.add("call", kind=kind, res=out.get("result"), verdict=out["verdict"], margin=out.get("margin"))
        tag = ("rect" if rect else "ell") + (":fallback" if out.get("faulted") else "") + (":exact" if out.get("exact") else "")
        stats[out["verdict"] + ":" + tag] += 1
        faults.update(out["faults"])
        probes.update(out["probes"])
        if out["verdict"] in ("ok", "wrong"):
            shapes.add((tag, W.shape, bool(out.get("oracle")), np.asarray(slack).size > 1, int(math.floor(math.log10(max(out.get("scale", 1.0), 1e-300))))))
        case = {"cone": spec, "region1": d1, "region2": d2, "slack": np.asarray(slack, float).reshape(-1).tolist(), "solver_rate": rate, "fault_key": fk}
        if len(samples) < 1 and out["verdict"] == "ok":
            samples.append({"case": core.to_jsonable(case), "outcome": core.to_jsonable({k: out[k] for k in ("result", "faulted", "margin", "verdict")})})
        if out["verdict"] in ("wrong", "exception"):
            from .runner import cone_tag

            cls = "wrong-decision" if out["verdict"] == "wrong" else "exception-escaped"
            fb = f":fallback[{out.get('status')}]" if out.get("faulted") else ""
            sig = f"{prop}:{cls}:{'rect' if rect else 'ell'}{fb}" + (f":said-{out.get('result')}" if cls == "wrong-decision" else "") + f":direct:any:{cone_tag(spec)}"
            viol.append({"signature": sig, "case": core.to_jsonable(case), "outcome": core.to_jsonable(out), "seed": seed})
    return {"index": index, "stats": dict(stats), "faults": dict(faults), "probes": dict(probes), "viol": viol, "shapes": sorted(map(repr, shapes)), "samples": samples, "digest": log.digest(), "calls": calls}


def replay(body) -> int:
    case = body["case"]
    prop = body["property"]
    out = judge_call(KIND[prop], case["cone"], case["region1"], case["region2"], np.array(case["slack"], float) if len(case["slack"]) != 1 else np.array(case["slack"][0]), case["solver_rate"], case["fault_key"])
    print("REPLAY:", json.dumps(core.to_jsonable(out), default=str)[:800])
    if out["verdict"] in ("wrong", "exception"):
        print(f"REPLAY: reproduced {body['signature']}")
        return 1
    print("REPLAY: the call is now decided correctly (or inside the band)")
    return 0


def run_check(prop, tier, master, n_runs=None, budget_s=None):
    from . import propchecks

    t0 = time.time()
    kind = KIND[prop]
    budget_s = core.budget(tier, budget_s)
    # (a) run-reached ----------------------------------------------------------------------
    n_a = n_runs or (140 if tier == "quick" else 4000)
    algos = ["PaVeBa", "PaVeBaGP", "PaVeBaPartialGP", "VOGP", "EpsilonPAL", "VOGP_AD"]
    if prop == "C09":
        algos = ["PaVeBa", "PaVeBa", "PaVeBaGP", "PaVeBaPartialGP", "VOGP", "EpsilonPAL"]
    res_a, err_a, skipped_a = propchecks.inrun_batch(prop, f"{prop}-{tier}-inrun", master, n_a, algos, [prop], opts={"fault_rates": (0.0, 0.02, 0.2, 1.0)}, budget_s=budget_s * 0.6)
    summ_a, viol_a, nontrivial_a = propchecks.inrun_summary(prop, res_a)
    # (b) direct workload ------------------------------------------------------------------
    n_b = (n_runs or (64 if tier == "quick" else 1600))
    calls = 40
    tasks = [(prop, f"{prop}-{tier}-direct", i, master, calls) for i in range(n_b)]
    res_b, err_b, skipped_b = core.run_pool(direct_worker, tasks, cap_s=600, budget_s=max(30.0, budget_s - (time.time() - t0)))
    stats, faults, probes = Counter(), Counter(), Counter()
    shapes = set()
    viol_b = {}
    samples = []
    for r in sorted(res_b, key=lambda r: r["index"]):
        stats.update(r["stats"])
        faults.update(r["faults"])
        probes.update(r["probes"])
        shapes.update(r["shapes"])
        samples += r["samples"][:1] if len(samples) < 2 else []
        for v in r["viol"]:
            viol_b.setdefault(v["signature"], []).append(v)
    out_viol = list(viol_a)
    for sig, lst in sorted(viol_b.items()):
        v = lst[0]
        path = core.write_replay(prop, v["seed"], sig, {"kind": "pred-call", "case": v["case"], "outcome": v["outcome"], "how": "python check.py --replay <this file>"})
        out_viol.append({"signature": sig, "replay": path, "what": json.dumps(v["outcome"], default=str)[:300], "count": len(lst)})
    decided_direct = sum(v for k, v in stats.items() if k.startswith("ok") or k.startswith("wrong"))
    fallback_decided = sum(v for k, v in stats.items() if (k.startswith("ok") or k.startswith("wrong")) and "fallback" in k)
    inrun_decided = summ_a["decided_judgements"].get(prop, 0)
    wall = time.time() - t0
    coverage = {
        "evaluations": len(res_a) + sum(r["calls"] for r in res_b),
        "distinct_nontrivial": len(nontrivial_a) + len(shapes),
        "rule": "evaluations = simulated runs (part a) + direct predicate calls (part b). Distinct non-trivial = distinct run trajectories in which the per-call monitor decided at least one call, plus distinct direct-call classes (region kind, fallback taken, cone shape, oracle answer, scalar/vector slack, decade of the configuration scale) that were decided outside the band",
        "samples": summ_a["samples"][:1] + samples[:2],
        "part_a_run_reached": summ_a,
        "part_b_direct_workload": {
            "note": "plain seeded input generation pushed through the fault seam; reported separately from simulation (DESIGN.md 5/C09)",
            "workers": len(res_b),
            "calls": sum(r["calls"] for r in res_b),
            "verdicts": dict(stats),
            "decided": decided_direct,
            "decided_after_forced_fallback": fallback_decided,
            "faults_fired": dict(faults),
            "probes_statuses_seen": {k: v for k, v in probes.items() if k.startswith("status") or k.startswith("fallback")},
            "distinct_decided_classes": len(shapes),
        },
        "runs_skipped_for_time_budget": skipped_a + skipped_b,
        "runs_per_hour": round((len(res_a) + len(res_b)) / max(wall, 1e-9) * 3600),
        "real_vs_stub": {"real": ["confidence_region predicates", "cvxpy", "Clarabel", "SCS (after injected SolverError)"], "simulated": ["solver health (SolverError raised on primary solves by a keyed coin)", "region pairs / cones / slacks of part b (seeded)", "run environments of part a (see C02)"]},
    }
    vacuity = None
    if inrun_decided + decided_direct == 0:
        vacuity = "no predicate call was decided"
    elif prop == "C10" and fallback_decided == 0 and summ_a["faults_fired"].get("F1_solver_error_injected", 0) == 0:
        vacuity = "no fallback solve under F1"
    elif prop == "C09" and fallback_decided == 0:
        vacuity = "no ellipsoid call decided after a forced fallback"
    assumptions = [
        "oracle: closed-form support functions (is dominated) / certificate-checked LP and convex dual (is covered)",
        "bands: 1e-6 rel+abs nominal, 1e-3 rel+abs after a forced SCS fallback, 1e-9 relative for rectangle dominance, exact on dyadic rectangles",
        "slack convention as the property states: objective-space shift for hyper-rectangles, per-facet allowance for ellipsoids",
    ]
    core.finish(prop, tier, master, t0, coverage, out_viol, err_a + err_b, assumptions, vacuity)


# ---------------------------------------------------------------------------------------------
# C11 auxiliary: direct seeded workload for the pessimistic rectangle comparison.  There is no
# fault seam in this predicate; this is declared input generation that widens the run-reached
# pairs (degenerate edges, equal coordinates, dyadic data, K_f > m cones).
# ---------------------------------------------------------------------------------------------
def c11_direct_worker(task):
    from vopy.confidence_region import confidence_region_check_dominates

    from . import env as E
    from .runner import BAND_PDOM, cone_tag

    family, index, master, calls = task
    seed = run_seed(master, family, index)
    rng = np.random.default_rng(seed)
    stats = Counter()
    viol = []
    classes = set()
    log = core.EventLog()
    for c in range(calls):
        spec = gen_cone_spec(rng)
        order = E.build_order(spec)
        W = np.array(order.ordering_cone.W, float)
        dyadic = bool(O._is_nice(W) and rng.random() < 0.5) or rng.random() < 0.2
        d1, d2, _ = gen_pair(rng, W, True, dyadic)
        if rng.random() < 0.3:
            # stack region 2 below region 1 along a cone-interior direction (the interesting zone)
            v = np.linalg.lstsq(W, np.ones(W.shape[0]), rcond=None)[0]
            w1 = np.asarray(d1["upper"]) - np.asarray(d1["lower"])
            sh = v / np.linalg.norm(v) * float(np.linalg.norm(w1) + 1e-12) * float(rng.uniform(0.2, 3.0))
            w2 = (np.asarray(d2["upper"]) - np.asarray(d2["lower"])) * float(rng.choice([0.3, 1.0, 3.0]))
            c2 = (np.asarray(d1["upper"]) + np.asarray(d1["lower"])) / 2 - sh
            d2 = {"lower": c2 - w2 / 2, "upper": c2 + w2 / 2}
        r1, r2 = build_region(d1), build_region(d2)
        try:
            got = bool(confidence_region_check_dominates(order, r1, r2))
        except Exception as e:
            viol.append({"signature": f"C11:exception-escaped:direct:{cone_tag(spec)}", "case": core.to_jsonable({"cone": spec, "region1": d1, "region2": d2}), "outcome": {"exc": repr(e)[:200]}, "seed": seed})
            continue
        jd = O.rect_check_dominates(W, O.snapshot_region(r1), O.snapshot_region(r2))
        d = O.decide(jd, *BAND_PDOM)
        log.add("pdom", got=got, margin=[jd.lo, jd.hi])
        two = W.shape == (2, 2)
        if d is None:
            stats["undecided"] += 1
            continue
        classes.add((W.shape, bool(d), got, "deg" if np.any(np.asarray(d1["upper"]) == np.asarray(d1["lower"])) else "full"))
        if got and not d:
            stats["unsound"] += 1
            viol.append({"signature": f"C11:unsound-true:direct:{cone_tag(spec)}", "case": core.to_jsonable({"cone": spec, "region1": d1, "region2": d2}), "outcome": {"said": got, "margin": [jd.lo, jd.hi]}, "seed": seed})
        elif (not got) and d and two:
            stats["incomplete-2x2"] += 1
            viol.append({"signature": f"C11:incomplete-2x2:direct:{cone_tag(spec)}", "case": core.to_jsonable({"cone": spec, "region1": d1, "region2": d2}), "outcome": {"said": got, "margin": [jd.lo, jd.hi]}, "seed": seed})
        elif (not got) and d:
            stats["incomplete-non2x2(allowed)"] += 1
        else:
            stats["ok:" + ("T" if d else "F") + (":2x2" if two else "")] += 1
    return {"index": index, "stats": dict(stats), "viol": viol, "classes": sorted(map(repr, classes)), "calls": calls, "digest": log.digest()}


def c11_direct(tier, master, budget_s):
    n = 32 if tier == "quick" else 640
    tasks = [(f"C11-{tier}-direct", i, master, 150) for i in range(n)]
    res, errors, skipped = core.run_pool(c11_direct_worker, tasks, cap_s=600, budget_s=budget_s)
    stats = Counter()
    classes = set()
    viol = {}
    for r in res:
        stats.update(r["stats"])
        classes.update(r["classes"])
        for v in r["viol"]:
            viol.setdefault(v["signature"], []).append(v)
    out = []
    for sig, lst in sorted(viol.items()):
        v = lst[0]
        path = core.write_replay("C11", v["seed"], sig, {"kind": "pdom-call", "case": v["case"], "outcome": v["outcome"]})
        out.append({"signature": sig, "replay": path, "what": json.dumps(v["outcome"], default=str)[:300], "count": len(lst)})
    return {"calls": sum(r["calls"] for r in res), "verdicts": dict(stats), "distinct_decided_classes": len(classes), "note": "declared seeded input generation (no fault seam in this predicate); widens the run-reached rectangle pairs"}, out, errors, len(classes)


def replay_pdom(body) -> int:
    from vopy.confidence_region import confidence_region_check_dominates

    from . import env as E
    from .runner import BAND_PDOM

    case = body["case"]
    order = E.build_order(case["cone"])
    W = np.array(order.ordering_cone.W, float)
    r1, r2 = build_region(case["region1"]), build_region(case["region2"])
    try:
        got = bool(confidence_region_check_dominates(order, r1, r2))
    except Exception as e:
        print("REPLAY: exception", repr(e)[:200])
        return 1
    jd = O.rect_check_dominates(W, O.snapshot_region(r1), O.snapshot_region(r2))
    d = O.decide(jd, *BAND_PDOM)
    print(f"REPLAY: check_dominates said {got}; oracle margin [{jd.lo}, {jd.hi}] -> {d}")
    bad = (got and d is False) or ((not got) and d is True and W.shape == (2, 2))
    return 1 if bad else 0
