"""Run-level checks: seeded search over scenarios, minimisation, replay, evidence."""
from __future__ import annotations

import copy
import json
import os
import sys
import time
from collections import Counter

import numpy as np

from . import core
from .core import run_seed

# ---------------------------------------------------------------------------------------------
# per-property configuration of the run-level search
# ---------------------------------------------------------------------------------------------
ELIM = ["PaVeBa", "PaVeBaGP", "PaVeBaPartialGP", "Auer", "VOGP", "EpsilonPAL", "VOGP_AD"]
CFG = {
    "C01": dict(
        algos=["PaVeBa", "PaVeBa", "PaVeBaGP", "PaVeBaGP", "PaVeBaPartialGP", "Auer"],
        props=["C01"],
        valid_only=True,
        quick=220,
        thorough=6000,
        fault_rates=(0.0,),  # solver faults are the business of C02/C03/C09/C10
        need=dict(decided=("C01", 5)),
        # dedicated hunt for the candidate of DESIGN.md 5/C01 (rectangles + obtuse cones + gaps in
        # (eps, eps*W alpha/alpha)); small K so the runs are cheap
        extra=[({"algos": ["PaVeBaGP", "PaVeBaPartialGP"], "envs": ["post_adv"], "features": {"d8_hunt": True, "kf_ne_m": False}}, 120, 6000)],
        title="valid regions => eps-accurate Pareto set (PaVeBa family, Auer)",
    ),
    "C02": dict(
        algos=ELIM,
        # heteroscedastic Auer with empirical widths: see C03 (seeded change C02-b was missed without it)
        extra=[
            ({"algos": ["Auer"], "envs": ["real_sim", "noise_adv"]}, 500, 10000),
            # 12-40 designs: set iteration order is no longer sorted order (see seeded/C07-b)
            ({"algos": ["Auer"], "envs": ["real_sim", "noise_adv"], "features": {"big_K": True}}, 400, 10000),
        ],
        props=["C02"],
        quick=260,
        thorough=9000,
        need=dict(decided=("C02", 200), both=("C02", ["must", "mustnot"])),
        title="elimination only on, and always on, a confidence-region certificate",
    ),
    "C03": dict(
        algos=ELIM + ["Auer"],
        # Auer has no solver: a dedicated heteroscedastic batch is nearly free and is where
        # per-design widths differ (the positional-width defect needed ~1 in 200 such runs)
        extra=[
            ({"algos": ["Auer"], "envs": ["real_sim", "noise_adv"]}, 500, 10000),
            # 12-40 designs: set iteration order is no longer sorted order (see seeded/C07-b)
            ({"algos": ["Auer"], "envs": ["real_sim", "noise_adv"], "features": {"big_K": True}}, 400, 10000),
        ],
        props=["C03"],
        quick=260,
        thorough=9000,
        need=dict(decided=("C03", 200), both=("C03", ["enter", "stay"])),
        title="P-entry exactly when nothing can still eps-cover; U; Auer hold-back",
    ),
    "C05": dict(
        algos=["VOGP", "VOGP", "EpsilonPAL"],
        props=["C05"],
        valid_only=True,
        quick=220,
        thorough=6000,
        fault_rates=(0.0,),  # solver faults are the business of C02/C03/C09/C10
        need=dict(decided=("C05", 5)),
        # acute cones + corner-hugging valid posteriors: where an unsound rectangle comparison loses
        # an isolated optimum (seeded change C05-a needed ~1 in 500 ordinary runs)
        extra=[({"algos": ["VOGP"], "envs": ["post_adv"], "features": {"acute_hug": True}}, 260, 8000)],
        title="VOGP / eps-PAL keep eps-isolated optima; P internally non-eps-dominated",
    ),
    "C06": dict(
        algos=["PaVeBa", "PaVeBaGP", "PaVeBaPartialGP", "Auer", "VOGP", "EpsilonPAL", "VOGP_AD", "NaiveElimination", "DecoupledGP"],
        props=["C06"],
        quick=320,
        thorough=12000,
        features={"big_batch": True, "kf_ne_m": True, "provoke_open_findings": True},
        extra=[({"algos": ["PaVeBa", "Auer", "Auer", "NaiveElimination"], "features": {"big_K": True}}, 80, 3000)],
        need=dict(decided=("C06", 500)),
        title="monotone, clean termination, no crash, exact accounting",
    ),
    "C07": dict(
        algos=["PaVeBa", "PaVeBaGP", "PaVeBaPartialGP", "Auer", "VOGP", "EpsilonPAL", "VOGP_AD", "NaiveElimination", "DecoupledGP"],
        props=["C07", "C16"],
        # many designs / sparse survivors (set iteration order != sorted order): seeded change C07-b
        extra=[({"algos": ["PaVeBa", "Auer", "Auer", "NaiveElimination"], "features": {"big_K": True}}, 120, 4000)],
        quick=260,
        thorough=9000,
        need=dict(decided=("C07", 300)),
        title="samples go to the acquisition maximiser among active designs and reach the model",
    ),
    "C11": dict(
        algos=["VOGP", "VOGP", "EpsilonPAL", "VOGP_AD"],
        props=["C11"],
        quick=200,
        thorough=7000,
        fault_rates=(0.0,),
        need=dict(decided=("C11", 500), both=("C11", ["T", "F"])),
        title="pessimistic comparison sound; complete for 2-D two-facet cones (run-level)",
    ),
}


def worker(task):
    """One simulated run.  Returns a slim, picklable result."""
    from . import runner, scenarios

    prop, family, index, master, cfg_over = task
    cfg = dict(CFG[prop])
    cfg.update(cfg_over or {})
    seed = run_seed(master, family, index)
    sc = scenarios.gen_scenario(
        seed,
        cfg["algos"],
        envs=cfg.get("envs"),
        valid_only=cfg.get("valid_only", False),
        props=cfg["props"],
        small=cfg.get("small", True),
        fault_rates=cfg.get("fault_rates", (0.0, 0.0, 0.02, 0.2, 1.0)),
        features=cfg.get("features"),
    )
    t0 = time.time()
    res = runner.simulate(sc)
    res["wall"] = time.time() - t0
    res["index"] = index
    res["scenario_brief"] = brief(sc)
    res["violations"] = [v for v in res["violations"]]
    if any(v["prop"] == prop for v in res["violations"]):
        res["scenario"] = sc
    return res


def brief(sc):
    from .runner import cone_tag

    return {
        "seed": sc["seed"],
        "algo": sc["algo"],
        "cone": cone_tag(sc["cone"]),
        "K": len(sc.get("mu", [])),
        "eps": sc["eps"],
        "delta": sc["delta"],
        "noise_var": sc["noise_var"],
        "contraction": sc.get("contraction"),
        "env": sc["env"] + ("/byz" if sc.get("byz") else ""),
        "batch": sc.get("batch"),
        "solver_rate": sc.get("solver_rate"),
        "values": sc.get("values_info", {}).get("style"),
    }


# ---------------------------------------------------------------------------------------------
# minimisation (bounded greedy delta debugging on the materialised scenario)
# ---------------------------------------------------------------------------------------------
def reproduces(sc, signature):
    from . import runner

    try:
        res = runner.simulate(sc)
    except core.HarnessError:
        return None
    for v in res["violations"]:
        if v["signature"] == signature:
            return res, v
    return None


def drop_design(sc, k):
    sc = copy.deepcopy(sc)
    K = len(sc["mu"])
    ids = sc.get("ids") or list(range(K))
    keep = [i for i in range(K) if i != k]
    sc["X"] = [sc["X"][i] for i in keep]
    sc["mu"] = [sc["mu"][i] for i in keep]
    sc["ids"] = [ids[i] for i in keep]
    if sc.get("noise_sd"):
        sc["noise_sd"] = [sc["noise_sd"][i] for i in keep]
    adv = sc.get("adv") or {}
    if adv.get("twins"):
        tw = []
        for i, j, t in adv["twins"]:
            if i == k or j == k:
                continue
            tw.append([i - (i > k), j - (j > k), t])
        adv["twins"] = tw
    sc.pop("values_info", None)
    return sc


def minimise(sc, signature, budget_s=90.0, max_runs=60):
    t0 = time.time()
    runs = 0
    best = copy.deepcopy(sc)
    got = reproduces(best, signature)
    runs += 1
    if got is None:
        return sc, None, {"minimised": False, "reason": "first re-run did not reproduce", "runs": runs}
    res, v = got
    steps_log = []

    def attempt(cand, what):
        nonlocal best, res, v, runs
        if time.time() - t0 > budget_s or runs >= max_runs:
            return False
        runs += 1
        g = reproduces(cand, signature)
        if g is not None:
            best, (res, v) = cand, g
            steps_log.append(what)
            return True
        return False

    # 1. truncate at the failing phase
    if v.get("phase") not in (None, "step", "init") and not best.get("stop_after"):
        cand = copy.deepcopy(best)
        cand["stop_after"] = [int(v["round"]), v["phase"]]
        cand["extra_steps"] = 0
        attempt(cand, "truncate")
    # 2. switch off fault kinds one by one
    for key, val, what in (("solver_rate", 0.0, "F1 off"), ("extra_steps", 0, "F15 off"), ("byz", False, "byzantine off")):
        if best.get(key) not in (val, None):
            cand = copy.deepcopy(best)
            cand[key] = val
            attempt(cand, what)
    adv = best.get("adv") or {}
    for key, val in (("jump", False), ("degenerate", False), ("aniso", False), ("rotate", False), ("twins", []), ("rho_mode", "zero")):
        if adv.get(key) not in (val, None) and key in adv:
            cand = copy.deepcopy(best)
            cand["adv"][key] = val
            attempt(cand, f"adv.{key} off")
    if best.get("noise_sd") and len(set(best["noise_sd"])) > 1:
        cand = copy.deepcopy(best)
        cand["noise_sd"] = [float(np.mean(best["noise_sd"]))] * len(best["noise_sd"])
        attempt(cand, "homoscedastic")
    # 3. drop designs (keyed adversary moves follow design ids, so the rest of the run is unchanged)
    if "mu" in best:
        changed = True
        while changed and len(best["mu"]) > 2:
            changed = False
            for k in range(len(best["mu"]) - 1, -1, -1):
                if len(best["mu"]) <= 2:
                    break
                cand = drop_design(best, k)
                if cand.get("stop_after"):
                    cand.pop("stop_after")
                if attempt(cand, f"drop design {k}"):
                    changed = True
        # re-truncate after dropping
        if not best.get("stop_after") and v.get("phase") not in (None, "step", "init"):
            cand = copy.deepcopy(best)
            cand["stop_after"] = [int(v["round"]), v["phase"]]
            cand["extra_steps"] = 0
            attempt(cand, "truncate")
    # 4. simpler batch
    if best.get("batch", 1) > 1:
        cand = copy.deepcopy(best)
        cand["batch"] = 1
        attempt(cand, "batch 1")
    return best, (res, v), {"minimised": True, "steps": steps_log, "runs": runs, "wall_s": round(time.time() - t0, 1)}


def make_replay(prop, sc, signature, min_info, res, v):
    payload = {
        "kind": "run-level",
        "scenario": sc,
        "expect": {"signature": signature, "round": v.get("round"), "phase": v.get("phase"), "step": v.get("step"), "digest": res["digest"]},
        "detail": v.get("detail"),
        "minimisation": min_info,
        "how": "python check.py --replay <this file>",
    }
    return core.write_replay(prop, sc.get("seed"), signature, payload)


def replay_run_level(body) -> int:
    from . import runner

    sc = body["scenario"]
    exp = body["expect"]
    res = runner.simulate(sc)
    hit = [v for v in res["violations"] if v["signature"] == exp["signature"]]
    if not hit:
        print(f"REPLAY: violation {exp['signature']} did not occur on this tree (digest {res['digest'][:16]})")
        return 0
    v = hit[0]
    same_place = (v.get("round"), v.get("phase")) == (exp.get("round"), exp.get("phase"))
    same_digest = res["digest"] == exp.get("digest")
    print(f"REPLAY: reproduced {exp['signature']} at round={v.get('round')} phase={v.get('phase')} same_place={same_place} same_digest={same_digest}")
    print("  detail:", json.dumps(core.to_jsonable(v.get("detail")), default=str)[:1500])
    if not (same_place and same_digest):
        print("REPLAY-MISMATCH: the violation reproduced but not bit-identically (tree differs from the one that produced the file, or nondeterminism)")
    return 1


# ---------------------------------------------------------------------------------------------
# the check
# ---------------------------------------------------------------------------------------------
def run_check(prop: str, tier: str, master: int, n_runs=None, budget_s=None, cfg_over=None):
    t0 = time.time()
    cfg = dict(CFG[prop])
    cfg.update(cfg_over or {})
    n = int(n_runs or cfg[tier])
    family = f"{prop}-{tier}"
    tasks = [(prop, family, i, master, cfg_over) for i in range(n)]
    if not (cfg_over or {}).get("algos"):
        for k, (over, nq, nt) in enumerate(cfg.get("extra", [])):
            ne = nq if tier == "quick" else nt
            if n_runs:
                ne = max(1, ne * n // max(1, cfg[tier]))
            extra_tasks = [(prop, f"{family}-extra{k}", n + 100000 * (k + 1) + i, master, over) for i in range(ne)]
            # interleave, so that a time budget cut (slow / loaded machine) thins both families
            # instead of dropping the dedicated batch
            merged, a_i, b_i = [], 0, 0
            while a_i < len(tasks) or b_i < len(extra_tasks):
                if b_i * len(tasks) <= a_i * len(extra_tasks) and b_i < len(extra_tasks) or a_i >= len(tasks):
                    merged.append(extra_tasks[b_i])
                    b_i += 1
                else:
                    merged.append(tasks[a_i])
                    a_i += 1
            tasks = merged
    if budget_s is None:
        budget_s = core.budget(tier)
    results, errors, skipped = core.run_pool(worker, tasks, cap_s=900, budget_s=budget_s)
    results.sort(key=lambda r: r["index"])
    # ---- aggregate ------------------------------------------------------------------------
    agg = Counter()
    faults, probes = Counter(), Counter()
    decided, undecided = Counter(), Counter()
    both = {}
    states, trajs, nontrivial = set(), set(), set()
    by_algo = Counter()
    vac = Counter()
    viol = []
    for r in results:
        agg["rounds"] += r["rounds"]
        agg["evaluations_of_problem"] += r["evaluations"]
        agg["solves"] += r["solves"]
        agg["events"] += r["events"]
        agg["terminated"] += int(bool(r.get("terminated")))
        agg["valid_runs"] += int(bool(r.get("valid")))
        agg["validity_checks"] += r.get("validity_checks", 0)
        agg["truth_left_region_events"] += r.get("invalid_events", 0)
        if r.get("vacuous"):
            vac[r["vacuous"]] += 1
        faults.update(r["faults"])
        probes.update(r["probes"])
        decided.update(r["decided"])
        undecided.update(r["undecided"])
        for k, v in r["both"].items():
            both.setdefault(k, set()).update(v)
        states.update(r["states"])
        trajs.add(r["traj"])
        by_algo[r["algo"]] += 1
        pol = set(r["both"].get(prop, []))
        need_both = cfg.get("need", {}).get("both")
        if r["decided"].get(prop, 0) > 0 and (not need_both or all(p in pol for p in need_both[1])):
            nontrivial.add(r["traj"] + ":" + r["algo"])
        for v in r["violations"]:
            if v["prop"] == prop:
                viol.append((r, v))
    # ---- violations: minimise + replay file (one per signature) -----------------------------
    out_viol = []
    seen = {}
    for r, v in viol:
        sig = v["signature"]
        seen.setdefault(sig, []).append((r, v))
    min_deadline = time.time() + (180 if tier == "quick" else 900)  # total minimisation budget
    for sig, lst in sorted(seen.items()):
        r, v = lst[0]
        sc = r.get("scenario")
        path = None
        known = core.match_open_finding(core.load_known_findings(), prop, sig) is not None
        if sc is not None and known:
            # a listed finding: keep the raw scenario as replay, do not spend the budget shrinking it
            path = core.write_replay(prop, sc.get("seed"), sig, {"kind": "run-level", "scenario": sc, "expect": {"signature": sig, "round": v.get("round"), "phase": v.get("phase"), "digest": r["digest"]}, "detail": v.get("detail"), "minimisation": {"minimised": False, "reason": "matches an open known finding"}})
        elif sc is not None and time.time() > min_deadline:
            path = core.write_replay(prop, sc.get("seed"), sig, {"kind": "run-level", "scenario": sc, "expect": {"signature": sig, "round": v.get("round"), "phase": v.get("phase"), "digest": r["digest"]}, "detail": v.get("detail"), "minimisation": {"minimised": False, "reason": "minimisation budget of this check run exhausted by earlier signatures"}})
        elif sc is not None:
            msc, got, info = minimise(sc, sig, budget_s=min(60 if tier == "quick" else 180, max(5.0, min_deadline - time.time())))
            if got is not None:
                path = make_replay(prop, msc, sig, info, got[0], got[1])
            else:
                path = core.write_replay(prop, sc.get("seed"), sig, {"kind": "run-level", "scenario": sc, "expect": {"signature": sig, "round": v.get("round"), "phase": v.get("phase"), "digest": r["digest"]}, "detail": v.get("detail"), "minimisation": info})
        out_viol.append({"signature": sig, "replay": path, "what": json.dumps(core.to_jsonable(v.get("detail")), default=str)[:400], "count": len(lst)})
    wall = time.time() - t0
    samples = [r["scenario_brief"] | {"rounds": r["rounds"], "final": r["final"], "decided": r["decided"].get(prop, 0)} for r in results[:4]]
    coverage = {
        "evaluations": len(results),
        "distinct_nontrivial": len(nontrivial),
        "rule": "one evaluation = one simulated run (seeded swarm scenario: algorithm, cone, data set, eps, delta, noise, contraction, batch, environment adversary, fault mix). Distinct = distinct sequence of (|S|,|P|,|U|) per round together with the algorithm; non-trivial = the property's monitor issued at least one decided verdict in the run"
        + (f" and the deciding branch went both ways ({'/'.join(cfg['need']['both'][1])})" if cfg.get("need", {}).get("both") else ""),
        "samples": samples,
        "runs_skipped_for_time_budget": skipped,
        "runs_per_hour": round(len(results) / max(wall, 1e-9) * 3600),
        "simulated_time": {"algorithm_rounds": agg["rounds"], "problem_evaluations": agg["evaluations_of_problem"], "conic_solves": agg["solves"], "events_logged": agg["events"]},
        "runs_by_algorithm": dict(by_algo),
        "terminated_runs": agg["terminated"],
        "runs_with_truth_inside_all_regions": agg["valid_runs"],
        "validity_checks": agg["validity_checks"],
        "truth_left_region_events": agg["truth_left_region_events"],
        "vacuous_runs": dict(vac),
        "faults_fired": dict(faults),
        "probes": dict(probes),
        "decided_judgements": dict(decided),
        "undecided_boundary_judgements": dict(undecided),
        "verdict_polarities_seen": {k: sorted(v) for k, v in both.items()},
        "distinct_phase_states": len(states),
        "distinct_trajectories": len(trajs),
        "real_vs_stub": REAL_VS_STUB,
        "violation_signatures": [{"signature": v["signature"], "count": v["count"], "replay": v["replay"]} for v in out_viol],
    }
    vacuity = None
    need = cfg.get("need", {})
    if "decided" in need:
        p, k = need["decided"]
        k = k if tier == "thorough" or n_runs is None else 1
        k = min(k, max(1, k * len(results) // max(1, cfg[tier])))
        if decided.get(p, 0) < k:
            vacuity = f"only {decided.get(p, 0)} decided judgements for {p} (need >= {k})"
    if "both" in need and vacuity is None:
        p, pols = need["both"]
        missing = [x for x in pols if x not in both.get(p, set())]
        if missing:
            vacuity = f"verdict polarities never seen for {p}: {missing}"
    assumptions = [
        "numerical bands: solver-backed predicate decisions are judged only outside 1e-6 (rel+abs) of the boundary, 1e-3 when the simulator forced the SCS fallback; rectangle dominance outside 1e-9 relative (exact on dyadic data)",
        "oracles (sim/oracles.py) are correct: closed-form support functions, certificate-checked LP / convex duals, Lawson-Hanson NNLS for alpha, active-set KKT for u*",
        "hyper-parameter fitting is stubbed (seeded, well-conditioned values); histories are adversarial only within the families of DESIGN.md 3.3; sizes K<=8, m<=3",
    ]
    if prop == "C11" and not cfg_over:
        from . import predicates

        dsum, dviol, derr, dcls = predicates.c11_direct(tier, master, 60 if tier == "quick" else 900)
        coverage["direct_workload_not_simulation"] = dsum
        coverage["distinct_nontrivial"] += dcls
        coverage["evaluations"] += dsum["calls"]
        coverage["rule"] += "; plus direct pessimistic-comparison calls of a declared seeded workload (distinct = decided classes by cone shape / oracle answer / predicate answer / degenerate edge)"
        out_viol += dviol
        errors += derr
    core.finish(prop, tier, master, t0, coverage, out_viol, errors, assumptions, vacuity)


REAL_VS_STUB = {
    "real": ["algorithm classes", "design spaces", "confidence regions + predicates", "orders / cones / alpha / u*", "acquisition + discrete optimisers", "cvxpy + Clarabel / SCS", "EmpiricalMeanVarModel", "GP model wrappers (real mode)", "ProblemFromDataset / DecoupledEvaluationProblem (real mode)"],
    "stub_or_simulated": ["data sets (generated, registered through the repo's registry)", "observation noise (seeded; adversarial in noise_adv mode)", "GP posterior (posterior adversary stub model in post_adv mode)", "hyper-parameter fitting (fit_gpytorch_mll replaced by seeded values)", "solver health (injected SolverError on primary solves)"],
    "not_exercised": ["matplotlib plotting"],
}
