"""Swarm scenario generator (DESIGN.md section 3.2).  A scenario is a plain JSON-able dict that
fully determines a run (together with the /repo tree)."""
from __future__ import annotations

import math
from typing import Optional, Sequence

import numpy as np

from . import oracles as O
from .core import keyed_rng, run_seed, streams
from .env import gen_hyper, random_cone_matrix


def _cone_W(spec):
    from .env import build_order

    return np.array(build_order(spec).ordering_cone.W, dtype=float)


def gen_cone(rng, m: Optional[int] = None, allow_kf_ne_m=True, orthant_only=False, two_by_two_bias=0.0):
    if orthant_only:
        return {"kind": "componentwise", "m": m or int(rng.choice([2, 2, 3]))}
    if m is None:
        m = int(rng.choice([2, 2, 2, 3]))
    if m == 2:
        c = rng.random()
        if c < 0.25:
            return {"kind": "componentwise", "m": 2}
        if c < 0.85 or not allow_kf_ne_m:
            deg = float(rng.choice([30, 45, 60, 75, 90, 105, 120, 135, 150, 160])) if rng.random() < 0.6 else float(round(rng.uniform(22, 168), 1))
            return {"kind": "theta2d", "deg": deg}
        return {"kind": "matrix", "W": random_cone_matrix(rng, 2, 3).tolist()}
    if m == 3:
        c = rng.random()
        if c < 0.2:
            return {"kind": "componentwise", "m": 3}
        if c < 0.6:
            return {"kind": "cone3d", "type": str(rng.choice(["acute", "right", "obtuse"]))}
        if c < 0.8 and allow_kf_ne_m:
            return {"kind": "icecream", "deg": float(rng.choice([20, 30, 45, 60])), "K": int(rng.choice([4, 5, 6, 8]))}
        K = 3 if not allow_kf_ne_m else int(rng.choice([3, 3, 4, 5]))
        return {"kind": "matrix", "W": random_cone_matrix(rng, 3, K).tolist()}
    return {"kind": "componentwise", "m": m}


def gen_values(rng, K: int, m: int, W: np.ndarray, alpha: np.ndarray, eps: float, slack_vec: Optional[np.ndarray] = None, style: Optional[str] = None):
    """True values: cloud / lattice with ties / chain / planted near-eps pairs."""
    style = style or str(rng.choice(["cloud", "lattice", "chain", "planted", "planted", "front"]))
    info = {"style": style}
    if style == "cloud":
        mu = rng.normal(size=(K, m)) * rng.choice([0.3, 1.0])
    elif style == "lattice":
        mu = rng.integers(-2, 3, size=(K, m)).astype(float) * 0.25
    elif style == "chain":
        # points along an interior direction of the cone: a total order
        v = np.linalg.lstsq(W, np.ones(W.shape[0]), rcond=None)[0]
        v /= np.linalg.norm(v)
        mu = np.array([v * k * rng.choice([0.5, 1.0, 2.0]) * eps for k in range(K)]) + rng.normal(size=(1, m))
    elif style == "front":
        # spread perpendicular to the cone axis: mostly mutually non-dominated
        ax = np.ones(m) / math.sqrt(m)
        mu = rng.normal(size=(K, m))
        mu -= (mu @ ax)[:, None] * ax[None, :]
        mu += rng.normal(size=(K, 1)) * 0.05 * ax[None, :]
    else:
        mu = rng.normal(size=(K, m)) * 0.7
        # planted pairs: mu_j = mu_i + eps(1 +- eta) v with W v = alpha  (gap hits every facet)
        npairs = max(1, K // 3)
        planted = []
        for p in range(npairs):
            i, j = 2 * p, 2 * p + 1
            if j >= K:
                break
            eta = float(rng.choice([1e-3, 1e-2, 0.1, 0.2]))
            sign = float(rng.choice([-1.0, 1.0]))
            if slack_vec is not None and rng.random() < 0.7:
                mu[j] = mu[i] + (1 + sign * eta) * slack_vec
            else:
                v = np.linalg.lstsq(W, alpha, rcond=None)[0]
                mu[j] = mu[i] + eps * (1 + sign * eta) * v
            planted.append([i, j, sign * eta])
        info["planted"] = planted
    if rng.random() < 0.25 and K >= 3 and style != "planted":
        # exact twins (F6)
        i, j = rng.choice(K, 2, replace=False)
        mu[j] = mu[i]
        info["twins"] = [int(i), int(j)]
    return mu, info


def gen_inputs(rng, K: int, d: int):
    X = rng.uniform(0, 1, size=(K, d))
    return np.round(X, 6)


ALGOS_ALL = ["PaVeBa", "PaVeBaGP", "PaVeBaPartialGP", "Auer", "VOGP", "EpsilonPAL", "VOGP_AD", "NaiveElimination", "DecoupledGP"]


def gen_scenario(seed: int, algos: Sequence[str], envs: Optional[Sequence[str]] = None, valid_only: bool = False, props=None, small: bool = False, fault_rates: Sequence[float] = (0.0, 0.0, 0.02, 0.2, 1.0), features: Optional[dict] = None) -> dict:
    st = streams(seed)
    rng = st["scenario"]
    features = features or {}
    algo = str(rng.choice(list(algos)))
    sc = {"seed": int(seed), "algo": algo, "adv_key": st["adv_key"], "fault_key": st["fault_key"], "env_seed": st["env_seed"]}
    if props:
        sc["props"] = list(props)
    orth = algo in ("Auer", "EpsilonPAL")
    m = None
    if algo in ("NaiveElimination",):
        # the default L needs a cone with an ordering complexity (2-D theta cones)
        if rng.random() < 0.8:
            sc["cone"] = {"kind": "theta2d", "deg": float(rng.choice([45, 60, 90, 120, 135]))}
        else:
            sc["cone"] = gen_cone(rng, m=None)
    elif algo == "VOGP_AD":
        sc["cone"] = gen_cone(rng, m=2, allow_kf_ne_m=False)
    else:
        sc["cone"] = gen_cone(rng, m=m, orthant_only=orth, allow_kf_ne_m=features.get("kf_ne_m", True))
    if features.get("acute_hug") and not orth:
        # acute cones (cone matrix with negative entries): mixed corner pairs decide dominance
        c = rng.random()
        if c < 0.6:
            sc["cone"] = {"kind": "theta2d", "deg": float(rng.choice([30, 40, 45, 50, 60, 70, 80]))}
        elif c < 0.8:
            sc["cone"] = {"kind": "cone3d", "type": "acute"}
        else:
            mm = int(rng.choice([2, 3]))
            sc["cone"] = {"kind": "matrix", "W": random_cone_matrix(rng, mm, mm).tolist()}
    if features.get("d8_hunt"):
        # hunted candidate D8: rectangles + a cone with (W alpha)_n > alpha_n (obtuse cones), where the
        # eps-slack eps*alpha is read as an objective-space shift
        c = rng.random()
        if c < 0.6:
            sc["cone"] = {"kind": "theta2d", "deg": float(rng.choice([100, 110, 120, 135, 150, 160, 170]))}
        elif c < 0.8:
            sc["cone"] = {"kind": "cone3d", "type": "obtuse"}
        else:
            mm = int(rng.choice([2, 3]))
            sc["cone"] = {"kind": "matrix", "W": random_cone_matrix(rng, mm, mm).tolist()}
    W = _cone_W(sc["cone"])
    Kf, m = W.shape
    alpha = O.oracle_alpha(W)
    sc["eps"] = float(rng.choice([0.05, 0.1, 0.2, 0.3, 0.5, 1.0])) if rng.random() < 0.7 else float(round(rng.uniform(0.02, 1.0), 3))
    sc["delta"] = float(rng.choice([1e-3, 0.01, 0.05, 0.1, 0.3, 0.5]))
    sc["noise_var"] = float(rng.choice([1e-4, 1e-3, 0.01, 0.1, 1.0]))
    sc["contraction"] = float(rng.choice([1, 4, 32, 1024]))
    Kmax = 5 if small else 8
    K = int(rng.integers(2, Kmax + 1))
    if algo in VOGPish or algo in ("PaVeBaGP", "PaVeBaPartialGP"):
        K = int(rng.integers(2, min(Kmax, 7) + 1))
    if features.get("big_K") and algo in ("PaVeBa", "Auer", "NaiveElimination"):
        # many designs, sparse survivors: Python sets of ints >= 8 no longer iterate in sorted order,
        # which is what any code pairing list(A) / sorted(A) / set order of the active set relies on
        K = int(rng.integers(12, 41)) if algo != "PaVeBa" else int(rng.integers(10, 21))
        # regions comparable to the gaps in round 1, so that S shrinks over several rounds
        sc["contraction"] = float(rng.choice([4, 8, 16])) if algo == "PaVeBa" else float(rng.choice([16, 32]))
        sc["noise_var"] = float(rng.choice([0.01, 0.04]))
        sc["eps"] = float(rng.choice([0.1, 0.2, 0.3]))
    d = int(rng.choice([1, 2, 3]))
    slack_vec = None
    if algo == "VOGP":
        slack_vec = O.oracle_ustar(W)[0] * sc["eps"]
    elif algo == "EpsilonPAL":
        slack_vec = np.full(m, sc["eps"])
    mu, info = gen_values(rng, K, m, W, alpha, sc["eps"], slack_vec)
    if features.get("d8_hunt"):
        # planted gaps strictly between eps and eps * max_n (W alpha)_n / alpha_n, along W v = alpha
        ratio = float(np.max((W @ alpha) / alpha))
        v = np.linalg.lstsq(W, alpha, rcond=None)[0]
        mu = rng.normal(size=(K, m)) * 0.7
        for p in range(K // 2):
            f = 1.0 + (max(ratio, 1.0) - 1.0) * float(rng.uniform(0.05, 0.95)) if ratio > 1.0 else float(rng.choice([1.01, 1.1]))
            mu[2 * p + 1] = mu[2 * p] + sc["eps"] * f * v
        info = {"style": "d8-planted", "ratio": ratio}
    sc["X"] = gen_inputs(rng, K, d).tolist()
    sc["mu"] = mu.tolist()
    sc["values_info"] = info
    sc["batch"] = 1
    if algo in ("PaVeBaGP", "PaVeBaPartialGP", "VOGP", "EpsilonPAL", "DecoupledGP"):
        # batches larger than the active set (F10) only when asked for (open finding D1 otherwise
        # ends most runs at once)
        opts = [1, 1, 1, 2, 2, 3, 3] + ([K, K + 1, 2 * K] if features.get("big_batch", True) else [])
        sc["batch"] = int(rng.choice(opts))
    provoke = bool(features.get("provoke_open_findings"))
    if algo == "PaVeBaGP":
        sc["gp_type"] = "IH" if features.get("d8_hunt") else str(rng.choice(["IH", "DE"]))
        if Kf != m and not provoke:
            sc["gp_type"] = "DE"  # open finding: rectangles reject a K_f-vector slack
    if algo == "PaVeBaPartialGP":
        sc["conf_type"] = "hyperrectangle" if features.get("d8_hunt") else str(rng.choice(["hyperrectangle", "hyperellipsoid"]))
        if Kf != m and not provoke:
            sc["conf_type"] = "hyperellipsoid"
        if rng.random() < 0.6:
            sc["costs"] = [float(x) for x in np.round(rng.uniform(0.5, 3.0, size=m), 2)]
            if rng.random() < 0.5:
                # dyadic costs: the running total can hit the budget *exactly* (boundary of >= / >)
                sc["costs"] = [float(x) for x in rng.choice([0.5, 1.0, 1.0, 2.0], size=m)]
            if rng.random() < 0.6:
                sc["budget"] = float(rng.choice([0.0, 1.0, 2.0, 3.0, 5.0, 8.0, 20.0]))
    if algo == "DecoupledGP":
        sc["costs"] = [float(x) for x in np.round(rng.uniform(0.5, 3.0, size=m), 2)]
        if rng.random() < 0.5:
            sc["costs"] = [float(x) for x in rng.choice([0.5, 1.0, 1.0, 2.0], size=m)]
        sc["budget"] = float(rng.choice([0.0, 2.0, 3.0, 6.0, 12.0]))
    if algo == "Auer":
        sc["emp_beta"] = bool(rng.random() < 0.6)
    if algo == "NaiveElimination":
        sc["L"] = int(rng.choice([1, 2, 5, 12]))
    if algo == "VOGP_AD":
        # open finding: in_dim < out_dim crashes in calculate_design_vh; only provoked on request
        in_dim = int(rng.choice([1, 2, 2])) if provoke else int(rng.choice([2, 2, 2, 3]))
        # depth 4 in 2-D matters: only then can the oldest surviving node be at maximum depth while a
        # younger one is coarser (seeded change C18-b needs that history)
        sc["vad"] = {"in_dim": in_dim, "depth_max": int(rng.choice([2, 3, 4, 4])) if in_dim < 3 else int(rng.choice([2, 2, 3])), "key": st["adv_key"]}
        if sc["vad"]["in_dim"] == 1:
            sc["vad"]["depth_max"] = int(rng.choice([2, 3, 4]))
        sc["contraction"] = float(rng.choice([4, 32, 1024]))
        sc["noise_var"] = float(rng.choice([1e-3, 0.01, 0.1]))
    # ---- environment ---------------------------------------------------------------------
    if algo == "Auer":
        choices = ["real", "noise_adv", "real_sim", "real_sim"]
    elif algo == "PaVeBa":
        choices = ["real", "noise_adv", "real_sim"]
    elif algo in ("PaVeBaGP", "PaVeBaPartialGP", "VOGP", "EpsilonPAL"):
        choices = ["post_adv", "post_adv", "real"]
    else:
        choices = ["real"]
    if envs:
        choices = [c for c in choices if c in envs] or choices
    sc["env"] = str(rng.choice(choices))
    if algo == "NaiveElimination" and features.get("naive_lattice") and rng.random() < 0.5:
        sc["env"] = "lattice"
        sc["mu"] = (np.round(np.array(sc["mu"]) * 4) / 4).tolist()
        sc["L"] = int(rng.choice([1, 2, 4, 8, 16]))
    sc["byz"] = False if valid_only else bool(rng.random() < 0.25 and sc["env"] in ("post_adv", "noise_adv"))
    if valid_only and sc["env"] in ("real", "real_sim"):
        # the hypothesis (truth inside every displayed region) is only likely to hold for real
        # noise at the theoretical setting; keep noise small so that such runs also terminate
        sc["contraction"] = 1.0
        sc["noise_var"] = float(rng.choice([1e-4, 1e-3, 0.01]))
        sc["eps"] = max(sc["eps"], 0.2)
        sc["delta"] = min(sc["delta"], 0.1)
    if sc["env"] == "real_sim":
        base = math.sqrt(sc["noise_var"])
        sc["noise_sd"] = [float(base * f) for f in rng.choice([0.1, 0.3, 1.0, 1.0, 3.0, 6.0], size=K)]
    adv = {
        "gamma": float(rng.choice([0.4, 0.5, 0.7, 0.9])),
        "gamma_round": float(rng.choice([1.0, 0.9, 0.8])),
        "rho_mode": str(rng.choice(["mix", "mix", "hug", "zero"])),
        "aniso": bool(rng.random() < 0.4),
        "cond": float(rng.choice([10, 100, 1e4])),
        "rotate": bool(rng.random() < 0.7),
        "degenerate": bool(rng.random() < 0.15),
        "jump": bool(rng.random() < 0.2),
        "s_lo": 0.2,
        "s_hi": float(rng.choice([0.5, 1.5, 3.0])),
    }
    if rng.random() < 0.2 and K >= 2:
        i, j = rng.choice(K, 2, replace=False)
        adv["twins"] = [[int(i), int(j), int(rng.integers(2, 8))]]
    if features.get("acute_hug"):
        adv.update({"rho_mode": "hug", "jump": False, "twins": []})
        adv.pop("twins", None)
    if features.get("d8_hunt"):
        adv.update({"aniso": True, "cond": float(rng.choice([100, 1e4])), "rho_mode": str(rng.choice(["hug", "mix"])), "degenerate": bool(rng.random() < 0.3), "jump": bool(rng.random() < 0.5)})
    sc["adv"] = adv
    if "twins" in adv and not sc["byz"] and sc["env"] == "post_adv":
        # identical posteriors are only a *valid* history when the truths coincide too (F6)
        i, j, _ = adv["twins"][0]
        mu[j] = mu[i]
        sc["mu"] = mu.tolist()
    if sc["env"] == "post_adv" and sc["contraction"] == 1 and algo in ("PaVeBaGP",):
        # alpha/contraction at contraction 1 is ~50: regions need many more halvings; keep runs short
        adv["gamma"] = min(adv["gamma"], 0.5)
    sc["solver_rate"] = float(rng.choice(list(fault_rates)))
    sc["hyper"] = gen_hyper(keyed_rng(st["adv_key"], 1))
    sc["extra_steps"] = int(rng.choice([0, 1, 2, 5]))
    sc["max_steps"] = 150 if small else 400
    if algo == "VOGP_AD":
        sc["max_steps"] = 120 if small else 250
    return sc


VOGPish = ("VOGP", "EpsilonPAL", "VOGP_AD")
