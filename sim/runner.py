"""Run-level simulation: drive a *real* VOPy algorithm round by round against simulated peers and
evaluate the monitors of DESIGN.md section 3.5 after every phase."""
from __future__ import annotations

import hashlib
import math
import random
import traceback
from collections import Counter
from typing import Dict, Optional, Set

import numpy as np
import torch

from . import env as E
from . import oracles as O
from . import refmodel as R
from .core import EventLog, HarnessError, harness, keyed_rng

BAND_NOMINAL = (1e-6, 1e-6)  # solver-backed predicate, fault-free (rel, abs)
BAND_FALLBACK = (1e-3, 1e-3)  # the call was forced onto SCS by F1
BAND_FLOAT = (1e-9, 0.0)  # pure float arithmetic (rectangle is_dominated)
BAND_PDOM = (1e-7, 0.0)  # pure float edge-intersection search

PHASES = {
    "PaVeBa": ["evaluating", "modeling", "discarding", "pareto_updating", "useful_updating"],
    "PaVeBaGP": ["evaluating", "modeling", "discarding", "pareto_updating", "useful_updating"],
    "PaVeBaPartialGP": ["evaluating", "modeling", "discarding", "pareto_updating", "useful_updating"],
    "Auer": ["evaluating", "modeling", "discarding", "pareto_updating"],
    "VOGP": ["modeling", "discarding", "epsiloncovering", "evaluating"],
    "EpsilonPAL": ["modeling", "discarding", "epsiloncovering", "evaluating"],
    "VOGP_AD": ["modeling", "discarding", "epsiloncovering", "evaluate_refine"],
    "NaiveElimination": [],
    "DecoupledGP": ["evaluating", "pareto_updating"],
}
PAVEBA_FAMILY = ("PaVeBa", "PaVeBaGP", "PaVeBaPartialGP")
VOGP_FAMILY = ("VOGP", "EpsilonPAL", "VOGP_AD")
ELIMINATION = PAVEBA_FAMILY + VOGP_FAMILY + ("Auer",)


def cone_tag(spec):
    k = spec["kind"]
    if k == "componentwise":
        return f"orthant{spec['m']}"
    if k == "theta2d":
        return "theta2d-" + ("acute" if spec["deg"] < 90 else "right" if spec["deg"] == 90 else "obtuse")
    if k == "cone3d":
        return "cone3d-" + spec["type"]
    if k == "icecream":
        return f"icecream-K{spec['K']}"
    W = np.array(spec["W"])
    return f"matrix-{W.shape[0]}x{W.shape[1]}"


class VopyFailure(Exception):
    pass


class Sim:
    def __init__(self, sc: dict, keep_log: bool = False):
        self.sc = sc
        self.log = EventLog(keep=keep_log)
        self.violations = []
        self.decided = Counter()
        self.undecided = Counter()
        self.both = {}  # prop -> set of verdict polarities seen
        self.state_sigs = set()
        self.traj = []
        self.vacuous_reason = None
        self.valid = True  # truth stayed inside every displayed region so far
        self.validity_checks = 0
        self.invalid_events = 0
        self.props = set(sc.get("props") or ["C01", "C02", "C03", "C05", "C06", "C07", "C09", "C10", "C11", "C14", "C15", "C16", "C18"])
        self.ever_left_S: Set[int] = set()
        self.children_of = {}
        self.phase_pre = None
        self.stop_after = sc.get("stop_after")  # (round, phase) for truncated replays
        self.memo = {}
        self.vad_discarded = set()
        self.vad_refined = set()
        self.bad_faulted = []
        self.cur_regs = None

    # -------------------------------------------------------------------------------------
    def violate(self, prop, cls, detail, **extra):
        sc = self.sc
        conf = self.conf_kind
        sig = f"{prop}:{cls}:{sc['algo']}:{conf}:{cone_tag(sc['cone'])}"
        v = {"prop": prop, "signature": sig, "round": int(self.ctx.round), "phase": self.ctx.phase, "detail": detail, "step": self.step_no}
        v.update(extra)
        self.violations.append(v)
        self.log.add("violation", sig=sig, round=self.ctx.round, phase=self.ctx.phase)

    def after_fault(self):
        if self.bad_faulted:
            b = self.bad_faulted[0]
            return f":after-faulted-{b['kind']}-error[{b['status']}]"
        return ""

    def via(self, kind, first=None, second=None):
        """Suffix naming a wrongly answered fault-forced predicate call of the current phase that
        involves the given design (first / second argument of the predicate), if any."""
        for b in self.bad_faulted:
            if b["kind"] == kind and b["round"] == int(self.ctx.round) and b["phase"] == self.ctx.phase:
                if (first is None or b["i"] == first) and (second is None or b["j"] == second):
                    return f":via-faulted-{kind}[{b['status']}]"
        return ""

    def judge(self, prop, polarity=None, n=1):
        self.decided[prop] += n
        if polarity is not None:
            self.both.setdefault(prop, set()).add(polarity)

    # -------------------------------------------------------------------------------------
    def build(self):
        sc = self.sc
        E.install_seams()
        self.ctx = E.RunContext(self.log, fault_key=sc.get("fault_key", 0), solver_rate=sc.get("solver_rate", 0.0), pred_hook=self.on_pred)
        self.ctx.hyper = sc.get("hyper") or E.gen_hyper(keyed_rng(sc.get("adv_key", 0), 1))
        E.set_ctx(self.ctx)
        seed = int(sc.get("env_seed", 0)) % (2**31 - 1)
        random.seed(seed)
        np.random.seed(seed)
        torch.manual_seed(seed)
        algo = sc["algo"]
        self.order = E.build_order(sc["cone"])
        self.W = np.array(self.order.ordering_cone.W, dtype=float)
        self.log.add("scenario", **{k: v for k, v in sc.items() if k not in ("props",)})
        cls = E.algo_class(algo)
        eps, delta, nv, cc = sc["eps"], sc["delta"], sc["noise_var"], sc.get("contraction", 32)
        batch = sc.get("batch", 1)
        self.dsname = None
        if algo == "VOGP_AD":
            vad = sc["vad"]
            self.cont_problem = E.SimContinuousProblem(vad["in_dim"], self.W.shape[1], vad["depth_max"], nv, vad["key"])
            self.mu = None
            a = cls(eps, delta, self.cont_problem, self.order, nv, cc, 1)
        else:
            if sc.get("dataset"):
                self.dsname = sc["dataset"]
                ds = E.m_ds.get_dataset_instance(self.dsname)
                self.X, self.mu = ds.in_data.copy(), ds.out_data.copy()
            else:
                self.dsname = "SimDS_%d" % (abs(hash((sc.get("env_seed", 0), sc.get("adv_key", 0)))) % 10**9)
                E.register_dataset(self.dsname, sc["X"], sc["mu"], scaled=sc.get("scaled", False))
                ds = E.m_ds.get_dataset_instance(self.dsname)
                self.X, self.mu = ds.in_data.copy(), ds.out_data.copy()
            if algo == "PaVeBa":
                a = cls(eps, delta, self.dsname, self.order, nv, cc)
            elif algo == "PaVeBaGP":
                a = cls(eps, delta, self.dsname, self.order, nv, cc, type=sc.get("gp_type", "IH"), batch_size=batch)
            elif algo == "PaVeBaPartialGP":
                a = cls(eps, delta, self.dsname, self.order, nv, cc, sc.get("costs"), sc.get("budget"), sc.get("conf_type", "hyperrectangle"), batch)
            elif algo == "Auer":
                a = cls(eps, delta, self.dsname, nv, cc, sc.get("emp_beta", False))
            elif algo == "VOGP":
                a = cls(eps, delta, self.dsname, self.order, nv, cc, batch)
            elif algo == "EpsilonPAL":
                a = cls(eps, delta, self.dsname, nv, cc, batch)
            elif algo == "NaiveElimination":
                a = cls(eps, delta, self.dsname, self.order, nv, sc.get("L"))
            elif algo == "DecoupledGP":
                a = cls(self.dsname, self.order, nv, sc.get("budget"), sc.get("costs"), batch)
            else:
                raise ValueError(algo)
        self.a = a
        if hasattr(a, "order"):
            self.W = np.array(a.order.ordering_cone.W, dtype=float)
        self.alpha_or = O.oracle_alpha(self.W)
        ds_ = getattr(a, "design_space", None)
        self.conf_kind = "none"
        if ds_ is not None:
            self.conf_kind = "hyperrectangle" if hasattr(ds_.confidence_regions[0], "lower") else "hyperellipsoid"
        # ---- environment -----------------------------------------------------------------
        envm = sc.get("env", "real")
        self.envm = envm
        adv = dict(sc.get("adv") or {})
        adv["byzantine"] = bool(sc.get("byz", False))
        self.stub = None
        self.noise_adv = None
        if envm == "post_adv":
            if algo == "VOGP_AD":
                raise ValueError("posterior adversary for VOGP_AD is not built")
            pts = a.design_space.points
            diagonal = self.conf_kind == "hyperrectangle"
            self.stub = E.StubGP(lambda: self.a, pts, self.mu, self.W, adv, sc.get("adv_key", 0), self.W.shape[1], diagonal, algo == "PaVeBaPartialGP", ids=sc.get("ids"))
            a.model = self.stub
        elif envm == "noise_adv":
            self.noise_adv = E.NoiseAdversary(lambda: self.a, self.mu, self.W, adv, sc.get("adv_key", 0), ids=sc.get("ids"))
            a.problem = E.SimProblem(self.X, self.mu, np.zeros(len(self.X)), sc.get("adv_key", 0), adversary=self.noise_adv, ids=sc.get("ids"))
        elif envm == "lattice":
            a.problem = E.SimProblem(self.X, self.mu, np.zeros(len(self.X)), sc.get("adv_key", 0), adversary=E.LatticeNoise(self.mu, sc.get("adv_key", 0), ids=sc.get("ids")), ids=sc.get("ids"))
        elif envm == "real_sim":
            sd = sc.get("noise_sd") or [math.sqrt(nv)] * len(self.X)
            a.problem = E.SimProblem(self.X, self.mu, sd, sc.get("adv_key", 0), ids=sc.get("ids"))
        self.proxy = E.RecordingProblem(a.problem, self.ctx)
        a.problem = self.proxy
        # ---- phase wrappers --------------------------------------------------------------
        for ph in PHASES[algo]:
            if hasattr(a, ph):
                setattr(a, ph, self._wrap_phase(ph, getattr(a, ph)))
        self.step_no = 0

    # -------------------------------------------------------------------------------------
    def sets(self):
        a = self.a
        S = set(int(x) for x in getattr(a, "S", set()))
        P = getattr(a, "P", set())
        P = set(int(x) for x in (P.tolist() if isinstance(P, np.ndarray) else P))
        U = set(int(x) for x in getattr(a, "U", set()))
        return S, P, U

    def regions(self):
        ds = getattr(self.a, "design_space", None)
        if ds is None:
            return {}
        return {i: O.snapshot_region(r) for i, r in enumerate(ds.confidence_regions)}

    def region_ids(self):
        ds = getattr(self.a, "design_space", None)
        return {} if ds is None else {id(r): i for i, r in enumerate(ds.confidence_regions)}

    def band_fn(self, kind, i, j):
        if kind == "check_dominates":
            return BAND_PDOM
        if self.faulted.get((kind, i, j)):
            regs = self.cur_regs
            if regs is not None and i in regs and j in regs:
                return O.fallback_band(regs[i], regs[j])
            return BAND_FALLBACK
        if kind == "is_dominated" and self.conf_kind == "hyperrectangle":
            return BAND_FLOAT
        return BAND_NOMINAL

    # -------------------------------------------------------------------------------------
    def _wrap_phase(self, name, fn):
        def wrapped(*a, **k):
            self.pre_phase(name)
            out = fn(*a, **k)
            self.post_phase(name)
            return out

        return wrapped

    @harness
    def pre_phase(self, name):
        ctx = self.ctx
        ctx.phase = name
        ctx.solve_idx = 0
        a = self.a
        ctx.round = int(a.round)
        S, P, U = self.sets()
        self.faulted = {}
        self.calls = []
        self.rid = self.region_ids()
        pre = {"S": S, "P": P, "U": U, "regions": None, "sample_count": int(a.sample_count), "ncalls": len(self.proxy.calls)}
        if name in ("modeling",):
            pre["regions"] = self.regions()
        if name in ("discarding",) and self.sc["algo"] in VOGP_FAMILY:
            # the pessimistic set the real code computes on the pre-phase state (pure function)
            ctx.pred_hook, hook = None, ctx.pred_hook
            try:
                pre["pess_code"] = set(int(x) for x in type(a).compute_pessimistic_set(a))
            finally:
                ctx.pred_hook = hook
        if name in ("evaluating", "evaluate_refine"):
            pre["regions"] = self.regions()
            pre["model"] = self.model_snapshot()
            pre["acq"] = self.acq_table(S, P, U)
            pre["pred_var"] = self.pred_var() if "C07" in self.props else None
            if self.sc["algo"] == "VOGP_AD":
                ds = a.design_space
                pre["n_points"] = len(ds.points)
                pre["depths"] = list(ds.point_depths)
                pre["enable"] = bool(a.enable_epsilon_covering)
        if name == "epsiloncovering" and self.sc["algo"] == "VOGP_AD":
            pre["enable"] = bool(a.enable_epsilon_covering)
            pre["depths"] = list(a.design_space.point_depths)
        self.phase_pre = pre

    @harness
    def post_phase(self, name):
        pre = self.phase_pre
        a = self.a
        algo = self.sc["algo"]
        S, P, U = self.sets()
        regs = self.regions()
        self.log.add("phase", name=name, round=self.ctx.round, S=S, P=P, U=U, sc=int(a.sample_count), regions=[r.key() for _, r in sorted(regs.items())] if name == "modeling" else None)
        decisions = tuple(sorted((k, i, j, bool(r)) for (k, i, j, r) in self.calls))
        self.state_sigs.add(hashlib.sha256(repr((algo, name, len(S), len(P), len(U), decisions)).encode()).hexdigest()[:16])
        if name == "modeling":
            self.check_modeling(pre, regs)
        elif name == "discarding":
            self.check_discarding(pre, S, P, U, regs)
        elif name in ("pareto_updating", "epsiloncovering"):
            if algo != "DecoupledGP":
                self.check_pareto(pre, S, P, U, regs)
        elif name == "useful_updating":
            self.check_useful(pre, S, P, U, regs)
        elif name in ("evaluating", "evaluate_refine"):
            self.check_evaluating(pre, S, P, U, name)
        if self.stop_after and (int(self.ctx.round), name) == tuple(self.stop_after):
            raise StopIteration

    # -------------------------------------------------------------------------------------
    # per-call predicate monitors (C09, C10, C11) ------------------------------------------
    @harness
    def on_pred(self, kind, order, r1, r2, slack, res, faulted):
        i, j = self.rid.get(id(r1), -1), self.rid.get(id(r2), -1)
        if faulted:
            self.faulted[(kind, i, j)] = True
        self.calls.append((kind, i, j, bool(res)))
        prop = {"is_dominated": "C09", "is_covered": "C10", "check_dominates": "C11"}[kind]
        if prop not in self.props and not faulted:
            return
        report = prop in self.props
        W = np.array(order.ordering_cone.W, dtype=float)
        s1, s2 = O.snapshot_region(r1), O.snapshot_region(r2)
        rect = isinstance(s1, O.Rect)
        try:
            jd = self.oracle(kind, W, s1, s2, slack)
        except ValueError:
            return  # slack shape the oracle does not define (the predicate itself rejected it)
        if kind == "is_dominated":
            band = O.fallback_band(s1, s2) if faulted else (BAND_FLOAT if rect else BAND_NOMINAL)
        elif kind == "is_covered":
            band = O.fallback_band(s1, s2) if faulted else BAND_NOMINAL
        else:
            band = BAND_PDOM
        d = O.decide(jd, *band)
        res = bool(res)
        tagk = ("rect" if rect else "ell") + (f":fallback[{self.ctx.last_status}]" if faulted else "")
        if faulted and d is not None and d != res and kind != "check_dominates":
            # a predicate forced onto the fallback solver answered wrongly: remember it, so that the
            # transition / terminal monitors can attribute their consequences to it
            self.bad_faulted.append({"kind": kind, "i": i, "j": j, "status": self.ctx.last_status, "said": res, "round": int(self.ctx.round), "phase": self.ctx.phase})
        if not report:
            return
        if d is None:
            self.undecided[prop] += 1
            return
        if kind == "check_dominates":
            if res and not d:
                self.judge(prop, "unsound")
                self.violate(prop, "unsound-true", {"i": i, "j": j, "r1": s1.key(), "r2": s2.key(), "margin": [jd.lo, jd.hi]})
            elif (not res) and d and W.shape == (2, 2):
                self.judge(prop, "incomplete")
                self.violate(prop, "incomplete-2x2", {"i": i, "j": j, "r1": s1.key(), "r2": s2.key(), "margin": [jd.lo, jd.hi]})
            else:
                self.judge(prop, "T" if d else "F")
                if (not res) and d:
                    self.ctx.probes["pdom_incomplete_non2x2"] += 1
            return
        self.judge(prop, ("T" if d else "F") + (":fb" if faulted else ""))
        if d != res:
            self.violate(prop, f"wrong-decision:{tagk}:said-{res}", {"i": i, "j": j, "r1": s1.key(), "r2": s2.key(), "slack": np.asarray(slack, float).reshape(-1).tolist(), "margin": [jd.lo, jd.hi], "scale": jd.scale})

    def oracle(self, kind, W, s1, s2, slack):
        """Memoised oracle judgement (regions are immutable snapshots, keyed by value)."""
        sk = () if kind == "check_dominates" or slack is None else tuple(np.asarray(slack, float).reshape(-1).tolist())
        key = (kind, s1.key(), s2.key(), sk)
        memo = self.memo
        if key not in memo:
            if len(memo) > 20000:
                memo.clear()
            if kind == "is_dominated":
                memo[key] = O.is_dominated(W, s1, s2, slack)
            elif kind == "is_covered":
                memo[key] = O.is_covered(W, s1, s2, slack)
            else:
                memo[key] = O.rect_check_dominates(W, s1, s2)
        return memo[key]

    # -------------------------------------------------------------------------------------
    def truth_of(self, i):
        if self.mu is not None:
            return self.mu[i]
        return self.cont_problem.evaluate_true(self.a.design_space.points[[i]])[0]

    def check_modeling(self, pre, regs):
        a = self.a
        algo = self.sc["algo"]
        S, P, U = pre["S"], pre["P"], pre["U"]
        if algo in PAVEBA_FAMILY:
            upd = S | U
        elif algo == "Auer":
            upd = set(S)
        else:
            upd = S | P
        # validity hypothesis of C01 / C05 (monitored, not enforced)
        for i in sorted(upd):
            inside = O.contains(regs[i], self.truth_of(i))
            self.validity_checks += 1
            if inside is not True:
                self.valid = False
                self.invalid_events += 1
        if "C14" not in self.props:
            return
        # C14 in-run: displayed == prediction scaled; untouched designs unchanged
        before = pre["regions"]
        for i in regs:
            if i not in upd and i in before and before[i].key() != regs[i].key():
                self.judge("C14", "touched")
                self.violate("C14", "untouched-design-changed", {"i": i})
        if len(upd) == 0:
            return
        try:
            scale = self.current_scale()
            pts = a.design_space.points
            idx = sorted(upd)
            # independent predict on >= 2 rows (avoids relying on the single-row path)
            q = idx if len(idx) > 1 else idx + [j for j in range(len(pts)) if j not in idx][:1]
            tv = None
            if algo == "Auer":
                tv = a.model.track_variances
                a.model.track_variances = False
            try:
                mus, covs = a.model.predict(pts[q])
            finally:
                if tv is not None:
                    a.model.track_variances = tv
        except Exception:
            return
        for k, i in enumerate(idx):
            mu_i, cov_i = np.asarray(mus[k], float), np.asarray(covs[k], float)
            r = regs[i]
            sc_i = self.scale_for(scale, i, idx, pre)
            if sc_i is None:
                continue
            if isinstance(r, O.Rect):
                std = np.sqrt(np.maximum(np.diag(cov_i), 0))
                lo, up = mu_i - std * sc_i, mu_i + std * sc_i
                tol = 1e-9 * np.abs(mu_i) + 1e-6 * np.abs(std * sc_i) + 1e-12  # variances of two predict calls agree to ~1e-8
                ok = np.all(np.abs(lo - r.lower) <= tol) and np.all(np.abs(up - r.upper) <= tol)
                self.judge("C14", "rect")
                if not ok:
                    self.violate("C14", "region-not-prediction-scaled", {"i": i, "expected": [lo.tolist(), up.tolist()], "got": [r.lower.tolist(), r.upper.tolist()], "n_updated": len(idx)})
                if np.any(r.lower > r.upper):
                    self.violate("C14", "lower-gt-upper", {"i": i})
            else:
                tolc = 1e-9 * np.abs(mu_i) + 1e-12
                ok = np.all(np.abs(r.center - mu_i) <= tolc) and np.allclose(r.sigma, cov_i, rtol=1e-6, atol=1e-9 * float(np.max(np.abs(cov_i))) + 1e-300) and abs(r.alpha - float(np.asarray(sc_i).reshape(-1)[0])) <= 1e-12 * abs(r.alpha)
                self.judge("C14", "ell")
                if not ok:
                    self.violate("C14", "region-not-prediction-scaled", {"i": i, "n_updated": len(idx)})

    def current_scale(self):
        a = self.a
        for nm in ("r_t", "alpha_t", "beta_t", "beta"):
            if hasattr(a, nm):
                return np.asarray(getattr(a, nm), float)
        return None

    def scale_for(self, scale, i, idx, pre):
        if scale is None:
            return None
        if scale.ndim < 2:
            return scale
        # Auer: one row per member of S in the order modeling() listed them (list(self.S));
        # recover the row of design i from the pre-phase S (same set object, same order)
        order = list(self.a.S) if self.sc["algo"] == "Auer" else idx
        if len(order) != len(scale) or i not in order:
            return None
        return scale[order.index(i)]

    # -------------------------------------------------------------------------------------
    def _pc(self, regs):
        self.cur_regs = regs
        return R.PredCache(self.W, regs, self.band_fn, oracle=self.oracle)

    def _tally(self, prop, pc, before):
        self.undecided[prop] += pc.undecided - before

    def check_discarding(self, pre, S, P, U, regs):
        algo = self.sc["algo"]
        S0, P0, U0 = pre["S"], pre["P"], pre["U"]
        D_code = S0 - S
        if algo == "VOGP_AD":
            self.vad_discarded |= D_code
        if "C02" not in self.props and "C11" not in self.props:
            return
        if P != P0:
            self.violate("C02", "P-changed-in-discarding", {"P0": sorted(P0), "P": sorted(P)})
        if not S <= S0:
            self.violate("C02", "S-grew-in-discarding", {})
        pc = self._pc(regs)
        if algo in PAVEBA_FAMILY:
            must, mustnot, free = R.paveba_discard(pc, S0, U0)
        elif algo == "Auer":
            must, mustnot, free = R.auer_discard(regs, S0)
        else:
            pess_code = pre["pess_code"]
            slack = self.vogp_slack()
            # C11 run-level: the pessimistic set against the per-vertex LP oracle
            if "C11" in self.props:
                pm, pn, pf = R.pessimistic_set(pc, S0 | P0)
                twobytwo = self.W.shape == (2, 2)
                for i in sorted(S0 | P0):
                    if i in pm and i not in pess_code:
                        self.judge("C11", "set")
                        self.violate("C11", "pess-set-drops-member", {"i": i, "pess_code": sorted(pess_code)})
                    elif i in pn and i in pess_code and twobytwo:
                        self.judge("C11", "set")
                        self.violate("C11", "pess-set-keeps-dominated-2x2", {"i": i, "pess_code": sorted(pess_code)})
                    elif i in pm or i in pn:
                        self.judge("C11", "set-in" if i in pm else "set-out")
            must, mustnot, free = R.vogp_discard(pc, S0, pess_code, slack)
        if "C02" not in self.props:
            return
        self.undecided["C02"] += len(free)
        for i in sorted(S0):
            if i in must:
                self.judge("C02", "must")
                if i not in D_code:
                    self.violate("C02", "certificate-ignored" + self.via("is_dominated", first=i), {"i": i, "S0": sorted(S0), "U0": sorted(U0), "D_code": sorted(D_code)})
            elif i in mustnot:
                self.judge("C02", "mustnot")
                if i in D_code:
                    self.violate("C02", "discard-without-certificate" + self.via("is_dominated", first=i), {"i": i, "S0": sorted(S0), "U0": sorted(U0), "D_code": sorted(D_code)})
        if D_code:
            self.ctx.probes["discard_happened"] += 1

    def vogp_slack(self):
        a = self.a
        if self.sc["algo"] == "EpsilonPAL":
            return np.asarray(float(a.epsilon))
        # eps * u*, u* from the independent oracle (repo's u* is checked against it here)
        u, d1, _ = O.oracle_ustar(self.W)
        s = u * float(a.epsilon)
        code = np.asarray(a.u_star_eps, float)
        if np.max(np.abs(code - s)) > 1e-6 * max(1.0, float(np.max(np.abs(s)))):
            # a wrong u* changes the eps-slack of every decision; attribute to the elimination rule
            self.violate("C02", "slack-not-eps-ustar", {"code": code.tolist(), "oracle": s.tolist()})
        return code

    def paveba_slack(self):
        a = self.a
        code = np.asarray(a.cone_alpha_eps, float)
        want = self.alpha_or * float(a.epsilon)
        if code.shape != want.shape or np.max(np.abs(code - want)) > 1e-6 * max(1.0, float(np.max(np.abs(want)))):
            self.violate("C03", "slack-not-eps-alpha", {"code": code.tolist(), "oracle": want.tolist()})
        return code

    def check_pareto(self, pre, S, P, U, regs):
        algo = self.sc["algo"]
        S0, P0, U0 = pre["S"], pre["P"], pre["U"]
        if "C03" not in self.props:
            return
        N_code = P - P0
        if not P0 <= P:
            self.violate("C03", "member-left-P", {"lost": sorted(P0 - P)})
        if not N_code <= S0:
            self.violate("C03", "P-entry-not-from-S", {"N": sorted(N_code)})
        if S0 - S != N_code:
            self.violate("C03", "S-P-bookkeeping", {"S0-S": sorted(S0 - S), "N": sorted(N_code)})
        pc = self._pc(regs)
        if algo in PAVEBA_FAMILY:
            slack = self.paveba_slack()
            try:
                must, mustnot, free = R.paveba_pareto(pc, S0, U0, slack)
            except ValueError:
                return
        elif algo == "Auer":
            must, mustnot, free = R.auer_pareto(regs, S0, float(self.a.epsilon))
        else:
            if algo == "VOGP_AD":
                depths = pre["depths"]
                gate = pre["enable"] or all(depths[i] == self.a.max_discretization_depth for i in S0)
                if not gate:
                    self.judge("C03", "gate-closed")
                    if N_code:
                        self.violate("C03", "P-entry-before-max-depth", {"N": sorted(N_code)})
                    return
            slack = self.vogp_slack()
            must, mustnot, free = R.vogp_cover(pc, S0, P0, slack)
        self.undecided["C03"] += len(free)
        for i in sorted(S0):
            if i in must:
                self.judge("C03", "enter")
                if i not in N_code:
                    self.violate("C03", "uncoverable-design-held-back" + self.via("is_covered", first=i), {"i": i, "S0": sorted(S0), "U0": sorted(U0), "P0": sorted(P0), "N_code": sorted(N_code)})
            elif i in mustnot:
                self.judge("C03", "stay")
                if i in N_code:
                    self.violate("C03", "P-entry-while-coverable" + self.via("is_covered", first=i), {"i": i, "S0": sorted(S0), "U0": sorted(U0), "P0": sorted(P0), "N_code": sorted(N_code)})
        if N_code:
            self.ctx.probes["P_entry_happened"] += 1

    def check_useful(self, pre, S, P, U, regs):
        if "C03" not in self.props:
            return
        if P != pre["P"] or S != pre["S"]:
            self.violate("C03", "S-or-P-changed-in-useful-updating", {})
        if not U <= P:
            self.violate("C03", "useful-not-subset-of-P", {"U": sorted(U), "P": sorted(P)})
        pc = self._pc(regs)
        slack = np.asarray(self.a.cone_alpha_eps, float)
        try:
            must, mustnot, free = R.paveba_useful(pc, P, S, slack)
        except ValueError:
            return
        self.undecided["C03"] += len(free)
        for p in sorted(P):
            if p in must:
                self.judge("C03", "useful")
                if p not in U:
                    self.violate("C03", "useful-design-dropped" + self.via("is_covered", second=p), {"p": p, "U": sorted(U)})
            elif p in mustnot:
                self.judge("C03", "useless")
                if p in U:
                    self.violate("C03", "useless-design-kept" + self.via("is_covered", second=p), {"p": p, "U": sorted(U)})
        if U - pre["U"]:
            self.ctx.probes["U_readmits_design"] += 1

    # -------------------------------------------------------------------------------------
    # C07 / C15 / C16: sampling and bookkeeping ------------------------------------------
    def model_snapshot(self):
        m = self.a.model if hasattr(self.a, "model") else None
        if m is None:
            return None
        if self.stub is not None:
            return {"kind": "stub", "n_added": len(self.stub.added)}
        if hasattr(m, "design_samples"):
            return {"kind": "emp", "samples": [np.array(s).copy() for s in m.design_samples]}
        if isinstance(getattr(m, "train_inputs", None), list):
            return {"kind": "list", "X": [t.numpy().copy() for t in m.train_inputs], "Y": [t.numpy().copy() for t in m.train_targets]}
        if hasattr(m, "train_inputs"):
            return {"kind": "multi", "X": m.train_inputs.numpy().copy(), "Y": m.train_targets.numpy().copy()}
        return None

    def check_gp_posterior(self):
        """C15 in-run: after each evaluating phase the real GP model's prediction at the design
        points equals the closed-form posterior of the data it reports to hold."""
        from .machines.c15 import read_hyper, ref_predict

        a = self.a
        m = getattr(a, "model", None)
        if m is None or hasattr(m, "design_samples") or not hasattr(m, "train_inputs"):
            return
        kind = "list" if isinstance(m.train_inputs, list) else ("corr" if type(m).__name__.startswith("Correlated") else "indep")
        pts = np.asarray(a.design_space.points if hasattr(a, "design_space") else a.points, float)
        if len(pts) > 40:
            pts = pts[:40]
        d, mm = m.input_dim, m.output_dim
        if kind == "list":
            data = [(m.train_inputs[o].numpy().copy(), m.train_targets[o].numpy().copy()) for o in range(mm)]
            n = sum(len(x) for x, _ in data)
        else:
            data = (m.train_inputs.numpy().copy(), m.train_targets.numpy().copy())
            n = len(data[0])
        if n > 150 or (kind == "corr" and n == 0):
            return
        try:
            mu, cov = m.predict(pts)
        except Exception:
            return
        h = read_hyper(m, kind)
        rmu, rcov = ref_predict(kind, h, data, pts, d, mm)
        ysc = 1.0 + (float(np.max(np.abs(np.concatenate([y for _, y in data])))) if kind == "list" and n else (float(np.max(np.abs(data[1]))) if kind != "list" and n else 0.0))
        vsc = float(max(h["os"])) if kind == "list" else (float(np.max(h["os"])) if kind == "indep" else float(np.max(np.diag(h["B"]))))
        self.judge("C15", "in-run-posterior")
        mu, cov = np.asarray(mu, float), np.asarray(cov, float)
        if mu.shape != rmu.shape or cov.shape != rcov.shape:
            self.violate("C15", "predict-shape", {"mean": list(mu.shape), "cov": list(cov.shape)})
        elif np.max(np.abs(mu - rmu)) > 1e-6 * ysc or np.max(np.abs(cov - rcov)) > 1e-6 * vsc:
            self.violate("C15", "posterior-differs-from-closed-form:" + kind, {"n_train": n, "max_mean_err": float(np.max(np.abs(mu - rmu))), "max_cov_err": float(np.max(np.abs(cov - rcov)))})

    def pred_var(self):
        """Posterior variances (N, m) of a real GP model at all design points (None otherwise)."""
        a = self.a
        m = getattr(a, "model", None)
        if m is None or self.stub is not None or hasattr(m, "design_samples") or not hasattr(m, "train_inputs"):
            return None
        pts = a.design_space.points if hasattr(a, "design_space") else a.points
        if len(pts) < 2:
            return None
        try:
            _, cov = m.predict(np.asarray(pts, float))
            return np.diagonal(np.asarray(cov, float), axis1=-2, axis2=-1).copy()
        except Exception:
            return None

    def acq_table(self, S, P, U):
        """Acquisition values recomputed by the harness from the pre-phase state."""
        a = self.a
        algo = self.sc["algo"]
        if "C07" not in self.props:
            return None
        try:
            if algo in VOGP_FAMILY:
                act = sorted(S | P)
                regs = self.regions()
                return {"active": act, "vals": {i: float(np.linalg.norm(regs[i].upper - regs[i].lower)) for i in act}}
            if algo == "PaVeBaGP":
                act = sorted(S | U)
                q = act if len(act) > 1 else act + [j for j in range(len(a.design_space.points)) if j not in act][:1]
                _, covs = a.model.predict(a.design_space.points[q])
                return {"active": act, "vals": {i: float(np.trace(np.asarray(covs[k]))) for k, i in enumerate(q) if i in act}}
            if algo == "PaVeBaPartialGP":
                act = sorted(S | U)
                q = act if len(act) > 1 else act + [j for j in range(len(a.design_space.points)) if j not in act][:1]
                _, covs = a.model.predict(a.design_space.points[q])
                costs = a.costs
                vals = {}
                for k, i in enumerate(q):
                    if i not in act:
                        continue
                    for d in range(a.m):
                        v = float(np.asarray(covs[k])[d, d])
                        vals[(i, d)] = v / float(costs[d]) if costs is not None else v
                return {"active": act, "vals": vals}
            if algo == "DecoupledGP" and int(getattr(a, "batch_size", 1)) == 1:
                # Thompson-entropy values are random: recompute the table with the same real
                # acquisition class from the torch generator state at phase entry, then rewind the
                # generator so that the real phase draws the same samples.  This decides selection,
                # cost weighting and bookkeeping -- not the entropy formula itself.
                from vopy.acquisition import ThompsonEntropyDecoupledAcquisition

                state = torch.get_rng_state()
                try:
                    acq = ThompsonEntropyDecoupledAcquisition(a.model, order=a.order, costs=a.costs)
                    vals = {}
                    for d in range(a.m):
                        acq.evaluation_index = d
                        v = np.asarray(acq(a.points), float)
                        for i in range(len(a.points)):
                            vals[(i, d)] = float(v[i])
                finally:
                    torch.set_rng_state(state)
                return {"active": list(range(len(a.points))), "vals": vals, "pairs": True}
            if algo == "DecoupledGP":
                return {"active": list(range(len(a.points)))}
            if algo in ("PaVeBa",):
                return {"active": sorted(S | U)}
            if algo == "Auer":
                return {"active": sorted(S)}
        except Exception:
            return None
        return None

    def locate(self, x):
        pts = np.asarray(self.a.design_space.points if hasattr(self.a, "design_space") else self.a.points, float)
        d = pts.shape[1] if self.sc["algo"] not in ("PaVeBa", "Auer") else pts.shape[1] - 1
        x = np.asarray(x, float).reshape(-1)[:d]
        hit = np.where(np.all(pts[:, :d] == x[None, :], axis=1))[0]
        return int(hit[0]) if len(hit) else -1

    def check_evaluating(self, pre, S, P, U, name):
        a = self.a
        algo = self.sc["algo"]
        calls = self.proxy.calls[pre["ncalls"] :]
        rows = []  # (design, obj or None, y)
        for x, idx, y in calls:
            x2 = x.reshape(1, -1) if x.ndim == 1 else x
            for r in range(len(x2)):
                di = self.locate(x2[r])
                oi = None if idx is None else (int(idx) if np.ndim(idx) == 0 else int(np.asarray(idx)[r]))
                rows.append((di, oi, np.asarray(y)[r]))
        # --- C06 accounting of this phase --------------------------------------------------
        if "C06" in self.props:
            self.judge("C06", "acct")
            if int(a.sample_count) - pre["sample_count"] != len(rows):
                self.violate("C06", "sample-count-drift", {"reported": int(a.sample_count) - pre["sample_count"], "requested": len(rows)})
        if algo == "VOGP_AD" and "C18" in self.props:
            if len(a.design_space.points) > pre["n_points"]:
                self.ctx.probes["vad_refined"] += 1
            self.check_refine(pre, S, P)
        if "C07" not in self.props:
            return
        acq = pre["acq"]
        refined = False
        if algo == "VOGP_AD":
            refined = len(a.design_space.points) > pre["n_points"]
            if refined:
                if rows:
                    self.violate("C07", "sampled-and-refined", {})
        if acq is not None and not refined:
            act = acq["active"]
            designs = [r[0] for r in rows]
            if any(d not in act for d in designs):
                self.judge("C07", "active")
                self.violate("C07", "sampled-inactive-design", {"queried": designs, "active": act})
            elif algo in ("PaVeBa", "Auer"):
                self.judge("C07", "all-once")
                if sorted(designs) != act:
                    self.violate("C07", "not-every-active-design-once", {"queried": sorted(designs), "active": act})
            elif "vals" in acq:
                vals = acq["vals"]
                keys = [(r[0], r[1]) if (algo == "PaVeBaPartialGP" or acq.get("pairs")) else r[0] for r in rows]
                want = min(int(getattr(a, "batch_size", 1)), len(vals))
                self.judge("C07", "argmax")
                if len(set(keys)) != len(keys):
                    self.violate("C07", "batch-not-distinct", {"queried": [str(k) for k in keys]})
                elif len(keys) != want:
                    self.violate("C07", "batch-size", {"queried": len(keys), "expected": want})
                else:
                    got = [vals[k] for k in keys]
                    tol = lambda v: 1e-6 * abs(v) + 1e-15  # near-ties within the accuracy of two predict calls count as ties
                    for t in range(1, len(got)):
                        if got[t] > got[t - 1] + tol(got[t - 1]):
                            self.violate("C07", "batch-not-in-nonincreasing-order", {"values": got})
                            break
                    rest = [v for k, v in vals.items() if k not in keys]
                    if rest and got and max(rest) > min(got) + tol(max(rest)):
                        self.violate("C07", "not-acquisition-maximiser", {"chosen": got, "best_left_out": max(rest), "queried": [str(k) for k in keys]})
                    if len(set(round(v, 12) for v in vals.values())) < len(vals):
                        self.ctx.probes["acq_ties"] += 1
        # --- the observations reached the model: its posterior at a just-sampled design tightened --
        pv0 = pre.get("pred_var")
        if pv0 is not None and rows and self.stub is None and algo != "VOGP_AD":
            pv1 = self.pred_var()
            if pv1 is not None and pv1.shape == pv0.shape:
                self.judge("C07", "committed")
                nv = float(self.sc["noise_var"])
                scale = float(np.max(pv0)) + 1e-300

                def too_little(v0, v1):
                    # one observation at x with noise nv lowers the variance at x by at least
                    # v0^2 / (v0 + nv); demand half of that, and only where it is far above rounding
                    exp_drop = v0 * v0 / (v0 + nv)
                    return exp_drop > 1e-9 * scale and not (v1 < v0 - 0.5 * exp_drop)

                for di, oi, _ in rows:
                    objs = range(pv0.shape[1]) if oi is None else [oi]
                    if any(too_little(float(pv0[di, o]), float(pv1[di, o])) for o in objs):
                        self.violate("C07", "observations-not-committed-to-the-model", {"design": di, "objective": oi, "var_before": pv0[di].tolist(), "var_after": pv1[di].tolist()})
                        break
        if self.stub is not None and rows and self.stub.pending != 0:
            self.violate("C07", "observations-not-committed-to-the-model", {"pending_add_sample_calls": int(self.stub.pending)})
        if "C15" in self.props and self.stub is None:
            self.check_gp_posterior()
        # --- rows appended to the model are exactly the returned observations ---------------
        post = self.model_snapshot()
        mp = pre["model"]
        if mp is None or post is None:
            return
        self.judge("C07", "stored")
        kind = post["kind"]
        if kind == "emp":
            K = len(post["samples"])
            exp = [list(s) for s in mp["samples"]]
            for di, oi, y in rows:
                if 0 <= di < K:
                    exp[di].append(np.asarray(y, float))
            for i in range(K):
                got_i = np.asarray(post["samples"][i], float)
                want_i = np.array(exp[i], float).reshape(-1, got_i.shape[1] if got_i.ndim == 2 else 1)
                if got_i.shape != want_i.shape or not np.array_equal(got_i, want_i):
                    self.violate("C07", "model-data-not-the-observations", {"design": i})
                    break
            if "C16" in self.props:
                self.check_emp_model(post)
        elif kind == "multi":
            nx = post["X"][len(mp["X"]) :]
            ny = post["Y"][len(mp["Y"]) :]
            ok = len(nx) == len(rows) and np.array_equal(post["X"][: len(mp["X"])], mp["X"]) and np.array_equal(post["Y"][: len(mp["Y"])], mp["Y"])
            if ok:
                for k, (di, oi, y) in enumerate(rows):
                    pts = np.asarray(a.design_space.points, float)
                    if not (np.array_equal(nx[k], pts[di][: nx.shape[1]]) and np.array_equal(ny[k], np.asarray(y, float))):
                        ok = False
            if not ok:
                self.violate("C07", "model-data-not-the-observations", {"n_new": len(nx), "n_rows": len(rows)})
        elif kind == "list":
            m = len(post["X"])
            ok = True
            for d in range(m):
                exp_rows = [(di, y) for di, oi, y in rows if oi == d]
                nx = post["X"][d][len(mp["X"][d]) :]
                ny = post["Y"][d][len(mp["Y"][d]) :]
                pts = np.asarray(a.design_space.points if hasattr(a, "design_space") else a.points, float)
                if len(nx) != len(exp_rows):
                    ok = False
                    break
                for k, (di, y) in enumerate(exp_rows):
                    if not (np.array_equal(nx[k], pts[di]) and float(ny[k]) == float(np.asarray(y).reshape(-1)[0])):
                        ok = False
            if not ok:
                self.violate("C07", "model-data-not-the-observations", {})
        elif kind == "stub":
            new = self.stub.added[mp["n_added"] :]
            flat = []
            for x, y, idx in new:
                for r in range(len(x)):
                    flat.append((self.locate(x[r]), None if idx is None else (int(idx) if np.ndim(idx) == 0 else int(idx[r])), y[r]))
            ok = len(flat) == len(rows) and all(f[0] == r[0] and f[1] == r[1] and np.array_equal(np.asarray(f[2], float), np.asarray(r[2], float)) for f, r in zip(flat, rows))
            if not ok:
                self.violate("C07", "model-data-not-the-observations", {"stored": len(flat), "observed": len(rows)})

    def check_emp_model(self, post):
        """C16 in-run: the empirical model's predictions equal an independent accumulator of
        everything the recording proxy returned."""
        a = self.a
        K = len(post["samples"])
        acc = [[] for _ in range(K)]
        for x, idx, y in self.proxy.calls:
            x2 = x.reshape(1, -1) if x.ndim == 1 else x
            for r in range(len(x2)):
                acc[self.locate(x2[r])].append(np.asarray(y)[r])
        pts = a.design_space.points
        tv, tm = a.model.track_variances, a.model.track_means
        try:
            a.model.track_variances = bool(self.sc.get("emp_beta", False))
            if a.model.track_variances and a.model.variances is None:
                return
            mus, covs = a.model.predict(pts)
        finally:
            a.model.track_variances, a.model.track_means = tv, tm
        for i in range(K):
            if acc[i]:
                arr = np.array(acc[i], float)
                want = arr.mean(axis=0)
            else:
                want = np.zeros(a.m)
            self.judge("C16", "mean")
            if not np.allclose(mus[i], want, rtol=1e-10, atol=1e-12):
                self.violate("C16", "running-mean-wrong", {"design": i, "n": len(acc[i])})
                break
            if self.sc.get("emp_beta", False):
                wv = np.diag(arr.var(axis=0)) if len(acc[i]) > 1 else np.eye(a.m) * a.model.noise_var
                if not np.allclose(covs[i], wv, rtol=1e-9, atol=1e-12):
                    self.violate("C16", "running-variance-wrong", {"design": i, "n": len(acc[i])})
                    break

    # -------------------------------------------------------------------------------------
    def deep_state(self):
        a = self.a
        S, P, U = self.sets()
        st = {"S": sorted(S), "P": sorted(P), "U": sorted(U), "round": int(a.round), "sc": int(a.sample_count), "cost": float(getattr(a, "total_cost", 0.0)), "calls": len(self.proxy.calls), "regions": [r.key() for _, r in sorted(self.regions().items())]}
        ms = self.model_snapshot()
        if ms is not None:
            st["model"] = hashlib.sha256(repr({k: (v if not isinstance(v, (list, np.ndarray)) else [np.asarray(x).tobytes() for x in (v if isinstance(v, list) else [v])]) for k, v in ms.items()}).encode()).hexdigest()
        if hasattr(a, "samples"):
            st["samples"] = hashlib.sha256(np.asarray(a.samples).tobytes()).hexdigest()
        return st

    def is_complete_expected(self):
        a = self.a
        algo = self.sc["algo"]
        S, P, U = self.sets()
        if algo == "NaiveElimination":
            return int(a.round) == int(a.L)
        if algo == "DecoupledGP":
            return float(a.total_cost) >= float(a.cost_budget)
        if algo == "PaVeBaPartialGP":
            return len(S) == 0 or float(a.total_cost) >= float(a.cost_budget)
        return len(S) == 0

    def step(self):
        a = self.a
        algo = self.sc["algo"]
        self.step_no += 1
        S0, P0, U0 = self.sets()
        r0 = int(a.round)
        calls0 = len(self.proxy.calls)
        cost0 = float(getattr(a, "total_cost", 0.0))
        was_complete = self.is_complete_expected()
        before = self.deep_state() if was_complete else None
        self.ctx.phase = "step"
        self.ctx.round = r0
        n_pts0 = len(a.design_space.points) if algo == "VOGP_AD" else None
        try:
            ret = a.run_one_step()
        except StopIteration:
            raise
        except Exception as e:
            tb = traceback.extract_tb(e.__traceback__)
            frames = [f for f in tb if "/vopy/" in f.filename]
            where = (frames[-1].name if frames else "?")
            feats = []
            Sx, Px, Ux = self.sets()
            if algo in ("VOGP", "EpsilonPAL") and int(self.sc.get("batch", 1)) > len(Sx | Px):
                feats.append("batch>active")
            if algo in ("PaVeBaGP", "PaVeBaPartialGP") and int(self.sc.get("batch", 1)) > len(Sx | Ux):
                feats.append("batch>active")
            if algo == "DecoupledGP" and int(self.sc.get("batch", 1)) > len(a.points):
                feats.append("batch>active")
            if algo == "VOGP_AD" and a.design_space.domain_dim < a.m:
                feats.append("in_dim<m")
            if self.W.shape[0] != self.W.shape[1] and self.conf_kind == "hyperrectangle" and algo in PAVEBA_FAMILY:
                feats.append("Kf!=m")
            if len(Sx | (Ux if algo in PAVEBA_FAMILY else Px)) == 1 and algo != "VOGP_AD":
                feats.append("single-active")
            self.judge("C06", "exc")
            self.violate("C06", f"exception:{type(e).__name__}:{where}:{'+'.join(feats) or 'plain'}", {"exc": repr(e)[:300], "tb": [f"{f.filename.split('/vopy/')[-1]}:{f.lineno}:{f.name}" for f in frames][-6:], "phase": self.ctx.phase, "S": sorted(S0), "P": sorted(P0)})
            raise VopyFailure(repr(e))
        S, P, U = self.sets()
        self.traj.append((len(S), len(P), len(U)))
        if "C06" in self.props:
            self.judge("C06", "step")
            if was_complete:
                after = self.deep_state()
                self.judge("C06", "idle")
                if ret is not True:
                    self.violate("C06", "completed-run-reports-not-done", {"ret": repr(ret)})
                if after != before:
                    diff = [k for k in after if after[k] != before.get(k)]
                    self.violate("C06", "step-after-completion-changed-state", {"changed": diff})
                return ret
            if int(a.round) != r0 + 1:
                self.violate("C06", "round-not-advanced-by-one", {"before": r0, "after": int(a.round)})
            if algo in ELIMINATION:
                kids = set()
                if algo == "VOGP_AD" and len(a.design_space.points) > n_pts0:
                    kids = set(range(n_pts0, len(a.design_space.points)))
                if not (S - kids) <= S0:
                    self.violate("C06", "S-grew", {"new": sorted(S - S0 - kids)})
                lostP = P0 - P
                if lostP and not (algo == "VOGP_AD" and kids and len(lostP) == 1):
                    self.violate("C06", "member-left-P", {"lost": sorted(lostP)})
                if S & P:
                    self.violate("C06", "S-and-P-overlap", {"both": sorted(S & P)})
                if not U <= P:
                    self.violate("C06", "useful-not-in-P", {"U-P": sorted(U - P)})
                self.ever_left_S |= S0 - S
                back = (S & self.ever_left_S) - kids
                if back:
                    self.violate("C06", "design-returned-to-S", {"back": sorted(back)})
            exp_done = self.is_complete_expected()
            if bool(ret) != exp_done or not isinstance(ret, (bool, np.bool_)):
                self.violate("C06", "completion-flag-wrong", {"ret": repr(ret), "expected": exp_done, "S": sorted(S)})
            # exact accounting over the whole run so far
            nrows = 0
            cost = 0.0
            costs = getattr(a, "costs", None)
            for x, idx, y in self.proxy.calls:
                n = 1 if x.ndim == 1 else len(x)
                nrows += n
                if costs is not None and idx is not None:
                    ii = np.full(n, int(idx)) if np.ndim(idx) == 0 else np.asarray(idx, int)
                    cost += float(np.sum(np.asarray(costs, float)[ii]))
            if int(a.sample_count) != nrows:
                self.violate("C06", "sample-count-drift", {"reported": int(a.sample_count), "requested": nrows})
            if hasattr(a, "total_cost") and costs is not None and abs(float(a.total_cost) - cost) > 1e-9 * max(1.0, abs(cost)):
                self.violate("C06", "total-cost-drift", {"reported": float(a.total_cost), "requested": cost})
        if algo == "VOGP_AD" and "C18" in self.props:
            self.check_tiling(S, P)
        if algo == "NaiveElimination" and "C08" in self.props:
            self.check_naive_P()
        return ret

    # -------------------------------------------------------------------------------------
    def check_naive_P(self):
        a = self.a
        K = a.K
        acc = [[] for _ in range(K)]
        for x, idx, y in self.proxy.calls:
            for r in range(len(x)):
                acc[self.locate_naive(x[r])].append(np.asarray(y)[r])
        means = np.array([np.mean(np.array(v), axis=0) for v in acc])
        P = [int(i) for i in np.asarray(a.P).tolist()]
        dom = O.pareto_bruteforce(means, self.W)
        self.judge("C08", "pareto")
        # exact Pareto set with one representative per duplicated mean vector
        vals = [tuple(v) for v in means.tolist()]
        bad = None
        if len(set(P)) != len(P) or any(not (0 <= p < K) for p in P):
            bad = "indices-invalid"
        for i in range(K):
            dominated = any(dom[j, i] and vals[j] != vals[i] for j in range(K))
            reps = [j for j in range(K) if vals[j] == vals[i]]
            if dominated and i in P:
                bad = bad or "dominated-member"
            if not dominated and not any(r in P for r in reps):
                bad = bad or "pareto-design-missing"
            if not dominated and sum(1 for r in reps if r in P) > 1:
                bad = bad or "duplicate-kept-twice"
        if bad:
            self.violate("C08", "P-not-pareto-set-of-sample-means:" + bad, {"P": P, "means": means.tolist()})

    def locate_naive(self, x):
        d = ((np.asarray(self.X, float) - np.asarray(x, float)[None, :]) ** 2).sum(-1)
        return int(np.argmin(d))

    # -------------------------------------------------------------------------------------
    def check_refine(self, pre, S, P):
        """C18: a refined node is replaced by its 2^d children in the same set."""
        a = self.a
        ds = a.design_space
        n0 = pre["n_points"]
        kids = set(range(n0, len(ds.points)))
        if not kids:
            return
        self.judge("C18", "refine")
        gone = (pre["S"] | pre["P"]) - (S | P)
        if len(gone) != 1:
            self.violate("C18", "refinement-did-not-remove-exactly-the-parent", {"gone": sorted(gone), "kids": sorted(kids)})
            return
        parent = next(iter(gone))
        self.vad_refined.add(parent)
        if len(kids) != 2**ds.domain_dim:
            self.violate("C18", "wrong-number-of-children", {"kids": sorted(kids)})
        if parent in pre["S"]:
            okset = S == (pre["S"] - {parent}) | kids and P == pre["P"]
        else:
            okset = P == (pre["P"] - {parent}) | kids and S == pre["S"]
            self.ctx.probes["vad_refined_member_of_P"] += 1
        if not okset:
            self.violate("C18", "children-not-in-parents-set", {"parent": parent, "parent_in_S": parent in pre["S"], "S": sorted(S), "P": sorted(P)})
        if pre["depths"][parent] >= ds.max_depth:
            self.violate("C18", "refined-at-max-depth", {"parent": parent})
        pr = pre["regions"][parent]
        for k in sorted(kids):
            if O.snapshot_region(ds.confidence_regions[k]).key() != pr.key():
                self.violate("C18", "child-region-not-parents", {"child": k})
                break

    def check_tiling(self, S, P):
        """C18 run-level invariants in exact dyadic arithmetic."""
        from fractions import Fraction

        a = self.a
        ds = a.design_space
        d = ds.domain_dim
        n = len(ds.points)
        self.judge("C18", "tiling")
        if not (len(ds.cells) == n and len(ds.point_depths) == n and len(ds.confidence_regions) == n and ds.cardinality == n):
            self.violate("C18", "array-lengths-inconsistent", {})
            return
        act = S | P
        if act & self.vad_refined:
            self.violate("C18", "refined-node-still-active", {"nodes": sorted(act & self.vad_refined)})
        if act & self.vad_discarded:
            self.violate("C18", "discarded-node-active-again", {"nodes": sorted(act & self.vad_discarded)})
        for i in sorted(act):
            if ds.point_depths[i] > ds.max_depth:
                self.violate("C18", "depth-beyond-max", {"i": i})
        if P:
            self.ctx.probes["vad_step_with_nonempty_P"] += 1
        if not S:
            self.ctx.probes["vad_run_terminated"] += 1
        if any(ds.point_depths[i] == ds.max_depth for i in act):
            self.ctx.probes["vad_step_with_max_depth_node"] += 1
        for p in sorted(P):
            if ds.point_depths[p] != a.max_discretization_depth:
                self.violate("C18", "pareto-node-not-at-max-depth", {"p": p, "depth": ds.point_depths[p]})
        leaves = sorted(act | self.vad_discarded)
        cells = {i: [(Fraction(float(c[0])), Fraction(float(c[1]))) for c in ds.cells[i]] for i in leaves}
        vol = Fraction(0)
        for i in leaves:
            v = Fraction(1)
            for lo, hi in cells[i]:
                v *= hi - lo
            vol += v
        overlap = None
        for x in range(len(leaves)):
            for y in range(x + 1, len(leaves)):
                ci, cj = cells[leaves[x]], cells[leaves[y]]
                if all(min(ci[k][1], cj[k][1]) > max(ci[k][0], cj[k][0]) for k in range(d)):
                    overlap = (leaves[x], leaves[y])
                    break
            if overlap:
                break
        if overlap:
            self.violate("C18", "leaf-cells-overlap", {"pair": overlap})
        if vol != 1:
            self.violate("C18", "leaves-do-not-tile-unit-cube", {"volume": str(vol), "active": sorted(act), "discarded": sorted(self.vad_discarded)})

    # -------------------------------------------------------------------------------------
    def terminal_checks(self):
        sc = self.sc
        algo = sc["algo"]
        S, P, U = self.sets()
        if S or self.mu is None:
            return
        mu, W = self.mu, self.W
        K = len(mu)
        eps = float(sc["eps"])
        if algo in PAVEBA_FAMILY + ("Auer",) and "C01" in self.props:
            if not self.valid:
                self.vacuous_reason = "hypothesis-failed"
                return
            self.judge("C01", "terminated-valid")
            gaps = O.oracle_gaps(mu, W, self.alpha_or)
            for i in range(K):
                if i not in P:
                    best = max((O.cone_dominates_margin(W, mu[p], mu[i]) for p in P), default=-math.inf)
                    if best < -1e-9:
                        self.violate("C01", "left-out-design-not-dominated-by-P" + self.after_fault(), {"i": i, "P": sorted(P), "best_margin": best})
            for p in sorted(P):
                if gaps[p] > eps * (1 + 1e-9):
                    tag = ""
                    if self.conf_kind == "hyperrectangle" and algo in PAVEBA_FAMILY:
                        # the family hands eps*alpha (per facet) to the rectangle predicate, which reads
                        # it as an objective-space shift s with W s = eps W alpha: gaps up to
                        # eps * max_n (W alpha)_n / alpha_n are then the expected size of that defect
                        bound = eps * float(np.max((W @ self.alpha_or) / self.alpha_or))
                        tag = ":within-rect-slack" if gaps[p] <= bound * (1 + 1e-9) else ":beyond-rect-slack"
                    self.violate("C01", "member-gap-exceeds-eps" + tag + self.after_fault(), {"p": p, "gap": float(gaps[p]), "eps": eps, "P": sorted(P)})
                    self.ctx.probes["gap_over_eps"] += 1
            if any(eps * 0.8 < g <= eps for g in gaps[sorted(P)]) if P else False:
                self.ctx.probes["near_eps_member_accepted"] += 1
            if any(g > eps for i, g in enumerate(gaps) if i not in P):
                self.ctx.probes["over_eps_design_rejected"] += 1
        if algo in ("VOGP", "EpsilonPAL") and "C05" in self.props:
            if not self.valid:
                self.vacuous_reason = "hypothesis-failed"
                return
            self.judge("C05", "terminated-valid")
            if algo == "EpsilonPAL":
                s = np.full(W.shape[1], eps)
            else:
                u, _, _ = O.oracle_ustar(W)
                s = u * eps
            band = 1e-7 * max(1.0, float(np.max(np.abs(mu))))
            for i in range(K):
                iso = all(np.min(W @ (mu[j] + s - mu[i])) < -band for j in range(K) if j != i)
                if iso:
                    self.ctx.probes["isolated_design"] += 1
                    if i not in P:
                        self.violate("C05", "isolated-optimum-lost" + self.after_fault(), {"i": i, "P": sorted(P)})
            for i in sorted(P):
                for j in sorted(P):
                    if i != j and np.min(W @ (mu[j] - mu[i] - s)) > band:
                        self.violate("C05", "member-dominated-by-member-beyond-slack" + self.after_fault(), {"i": i, "j": j})

    # -------------------------------------------------------------------------------------
    def run(self):
        sc = self.sc
        res = {"ok": True}
        stopped = False
        try:
            self.build()
            max_steps = int(sc.get("max_steps", 400))
            done = False
            steps = 0
            vopy_failed = False
            while not done and steps < max_steps:
                try:
                    done = bool(self.step())
                except VopyFailure:
                    vopy_failed = True
                    break
                except StopIteration:
                    stopped = True
                    break
                steps += 1
            terminated = done and not vopy_failed
            if terminated:
                self.terminal_checks()
                for _ in range(int(sc.get("extra_steps", 0))):
                    try:
                        self.step()
                        self.ctx.faults["F15_step_after_completion"] += 1
                    except VopyFailure:
                        break
            elif not vopy_failed and not stopped:
                self.vacuous_reason = "step-cap"
            res.update({"terminated": terminated, "steps": steps})
        finally:
            E.set_ctx(None)
            if getattr(self, "dsname", None) and self.dsname.startswith("SimDS_"):
                E.unregister_dataset(self.dsname)
        ctx = self.ctx
        if self.stub is not None:
            ctx.faults["F2_boundary_hugging_move"] += self.stub.moves["rho>=0.95"]
        if self.noise_adv is not None:
            ctx.faults["F2_boundary_hugging_move"] += self.noise_adv.moves["rho>=0.95"]
        S, P, U = self.sets()
        res.update(
            {
                "seed": sc.get("seed"),
                "algo": sc["algo"],
                "digest": self.log.digest(),
                "events": self.log.n,
                "rounds": int(self.a.round),
                "evaluations": sum(1 if x.ndim == 1 else len(x) for x, _, _ in self.proxy.calls),
                "solves": ctx.solves,
                "violations": self.violations,
                "decided": dict(self.decided),
                "undecided": dict(self.undecided),
                "both": {k: sorted(v) for k, v in self.both.items()},
                "faults": dict(ctx.faults),
                "probes": dict(ctx.probes),
                "states": sorted(self.state_sigs),
                "traj": hashlib.sha256(repr(self.traj).encode()).hexdigest()[:16],
                "valid": self.valid,
                "validity_checks": self.validity_checks,
                "invalid_events": self.invalid_events,
                "vacuous": self.vacuous_reason,
                "final": {"S": sorted(S), "P": sorted(P), "U": sorted(U)},
            }
        )
        if self.log.keep:
            res["log"] = self.log.events
        return res


def simulate(sc: dict, keep_log: bool = False) -> dict:
    return Sim(sc, keep_log=keep_log).run()
